"""C21 — BLS12-381.  Reads (with `ast` only)

  michelson/types/bls.py            Fr modulus / byte width / byte order / reduction; the G1 and G2 byte layouts
                                    (`from_point`: field width, wire order, infinity coordinates, length assertion;
                                    `to_point`: slices, coefficient order, and whether / how infinity is decoded)
  michelson/types/core.py, domain.py which operand classes derive from IntType
  michelson/instructions/arithmetic.py   the dispatch tables of ADD / MUL / NEG and the shape of their tails
                                    (integer branch through `res_type.from_value`, point branch through
                                    `from_point(bls12_381.<op>(to_point …))`), INT on Fr
  michelson/instructions/crypto.py  PAIRING_CHECK: product of `pairing(g2.to_point(), g1.to_point())` compared to one

Anything that does not have one of the recognised shapes is emitted as `none` (status False)."""
import ast

from translator.extract import find_class, find_func, generator, lean_list, parse, strip_docstring

TY = {'NatType': 'nat', 'IntType': 'int', 'MutezType': 'mutez', 'TimestampType': 'timestamp',
      'BLS12_381_FrType': 'fr', 'BLS12_381_G1Type': 'g1', 'BLS12_381_G2Type': 'g2'}
PY_ECC_CONSTS = {'POW_2_381': 2 ** 381, 'POW_2_382': 2 ** 382, 'POW_2_383': 2 ** 383, 'POW_2_384': 2 ** 384}

PRELUDE = '''/-- operand classes of ADD / MUL / NEG -/
inductive Ty | nat | int | mutez | timestamp | fr | g1 | g2
  deriving DecidableEq, Repr

/-- byte layout of a curve point as `from_point` writes it and `to_point` reads it.  Coordinates are listed in
py_ecc order (G1: x, y; G2: x.coeffs[0], x.coeffs[1], y.coeffs[0], y.coeffs[1]). -/
structure PointLayout where
  /-- `c.to_bytes(width, 'big')` -/
  width : Nat
  /-- wire position i holds coordinate `write[i]` -/
  write : List Nat
  /-- coordinates `from_point` encodes for the point at infinity -/
  infCoords : List Nat
  /-- `from_point` ends in `cls.from_value(value)` which asserts this length (`none`: plain `cls(value)`) -/
  assertLen : Option Nat
  /-- coordinate j is `int.from_bytes(value[lo:hi], 'big')` -/
  read : List (Nat × Option Nat)
  /-- `to_point` returns the point at infinity when the coordinates read equal this list (`none`: no such branch) -/
  decodeInf : Option (List Nat)
  deriving DecidableEq, Repr
'''


def u(node):
    return ast.unparse(node).replace(' ', '').replace('\n', ';')


def const_int(node):
    if isinstance(node, ast.Constant) and isinstance(node.value, int) and not isinstance(node.value, bool):
        return node.value
    if isinstance(node, ast.Name) and node.id in PY_ECC_CONSTS:
        return PY_ECC_CONSTS[node.id]
    return None


def class_attr(cls, name):
    for n in cls.body:
        if isinstance(n, ast.Assign) and len(n.targets) == 1 and isinstance(n.targets[0], ast.Name) and n.targets[0].id == name:
            return n.value
    return None


def own_method(cls, name):
    for n in cls.body:
        if isinstance(n, ast.FunctionDef) and n.name == name:
            return n
    return None


# ---- Fr ------------------------------------------------------------------------------------------

def fr_facts(tree, status):
    cls = find_class(tree, 'BLS12_381_FrType')
    out = {}
    m = class_attr(cls, 'modulus')
    out['modulus'] = const_int(m) if m is not None else None
    status['Fr.modulus literal'] = (out['modulus'] is not None, str(out['modulus']))

    fv = own_method(cls, 'from_value')
    body = [u(s) for s in strip_docstring(fv.body)] if fv else []
    out['reduces'] = True if body == ['returncls(value%cls.modulus)'] else (False if body == ['returncls(value)'] else None)
    status['Fr.from_value shape'] = (out['reduces'] is not None, ';'.join(body)[:200])

    b2i = own_method(cls, 'bytes_to_int')
    out['maxlen'] = out['order_in'] = None
    if b2i:
        body = strip_docstring(b2i.body)
        if len(body) == 2 and isinstance(body[0], ast.Assert) and isinstance(body[0].test, ast.Compare) \
                and u(body[0].test.left) == 'len(value)' and len(body[0].test.ops) == 1 \
                and isinstance(body[0].test.ops[0], ast.LtE) and const_int(body[0].test.comparators[0]) is not None:
            out['maxlen'] = const_int(body[0].test.comparators[0])
            r = u(body[1])
            if r == "returnint.from_bytes(value,'little')":
                out['order_in'] = 'little'
            elif r == "returnint.from_bytes(value,'big')":
                out['order_in'] = 'big'
    status['Fr.bytes_to_int shape'] = (out['maxlen'] is not None and out['order_in'] is not None, ast.unparse(b2i)[:200] if b2i else 'missing')

    fm = own_method(cls, 'from_micheline_value')
    src = u(fm) if fm else ''
    ok = "'int':int" in src and "'bytes':lambdax:cls.bytes_to_int(bytes.fromhex(x))" in src and src.endswith('returncls.from_value(value)')
    out['literal_ok'] = ok
    status['Fr.from_micheline_value shape'] = (ok, src[:200])

    tm = own_method(cls, 'to_micheline_value')
    out['outlen'] = out['order_out'] = None
    if tm:
        for n in ast.walk(tm):
            if isinstance(n, ast.Call) and isinstance(n.func, ast.Attribute) and n.func.attr == 'to_bytes' \
                    and u(n.func.value) == 'self.value' and len(n.args) == 2 and const_int(n.args[0]) is not None \
                    and isinstance(n.args[1], ast.Constant):
                out['outlen'], out['order_out'] = const_int(n.args[0]), n.args[1].value
    status['Fr.to_micheline_value shape'] = (out['outlen'] is not None, f"{out['outlen']} {out['order_out']}")
    bases = [u(b) for b in cls.bases]
    out['is_int'] = bases == ['IntType']
    status['Fr base class'] = (out['is_int'], str(bases))
    return out


# ---- G1 / G2 layouts ----------------------------------------------------------------------------------

G1_ELSE = ['x_pt,y_pt=bls12_381.normalize(point)', 'x,y=(x_pt.n,y_pt.n)']
G2_ELSE = ['x,y=bls12_381.normalize(point)', 'x_re,x_im=x.coeffs', 'y_re,y_im=y.coeffs']
G1_NAMES = ['x', 'y']
G2_NAMES = ['x_re', 'x_im', 'y_re', 'y_im']
G1_CTOR = '(FQ(x),FQ(y),FQ(1))'
G2_CTOR = '(FQ2([x_re,x_im]),FQ2([y_re,y_im]),FQ2([1,0]))'


def layout(tree, cname, names, else_shape, ctor, zero_name, status):
    """returns Lean text of a PointLayout or None"""
    tag = cname.replace('BLS12_381_', '').replace('Type', '')
    cls = find_class(tree, cname)
    why = []

    # from_value: assert len(value) == N
    fv = own_method(cls, 'from_value')
    total = None
    if fv:
        body = strip_docstring(fv.body)
        if len(body) == 2 and isinstance(body[0], ast.Assert) and isinstance(body[0].test, ast.Compare) \
                and u(body[0].test.left) == 'len(value)' and isinstance(body[0].test.ops[0], ast.Eq) \
                and u(body[1]) == 'returncls(value)':
            total = const_int(body[0].test.comparators[0])
    if total is None:
        why.append('from_value not `assert len(value) == N; return cls(value)`')

    # from_point
    fp = own_method(cls, 'from_point')
    width = write = inf = None
    assert_len = 'bad'
    body = strip_docstring(fp.body) if fp else []
    if len(body) == 3 and isinstance(body[0], ast.If) and u(body[0].test) == 'bls12_381.is_inf(point)' \
            and [u(s) for s in body[0].orelse] == else_shape and len(body[0].body) == 1:
        a = body[0].body[0]
        if isinstance(a, ast.Assign) and len(a.targets) == 1 and isinstance(a.targets[0], ast.Tuple) \
                and isinstance(a.value, ast.Tuple) and len(a.targets[0].elts) == len(a.value.elts):
            tn = [u(t) for t in a.targets[0].elts]
            tv = [const_int(v) for v in a.value.elts]
            if sorted(tn) == sorted(names) and None not in tv:
                inf = [dict(zip(tn, tv))[n] for n in names]
        v = body[1]
        if isinstance(v, ast.Assign) and u(v.targets[0]) == 'value':
            terms = []

            def flat(e):
                if isinstance(e, ast.BinOp) and isinstance(e.op, ast.Add):
                    flat(e.left)
                    flat(e.right)
                else:
                    terms.append(e)
            flat(v.value)
            ws, order = set(), []
            for t in terms:
                if isinstance(t, ast.Call) and isinstance(t.func, ast.Attribute) and t.func.attr == 'to_bytes' \
                        and isinstance(t.func.value, ast.Name) and t.func.value.id in names and len(t.args) == 2 \
                        and const_int(t.args[0]) is not None and u(t.args[1]) == "'big'" and not t.keywords:
                    ws.add(const_int(t.args[0]))
                    order.append(names.index(t.func.value.id))
                else:
                    order = None
                    break
            if order is not None and len(ws) == 1 and sorted(order) == list(range(len(names))):
                width, write = ws.pop(), order
        r = u(body[2])
        if r == 'returncls.from_value(value)':
            assert_len = total
        elif r == 'returncls(value)':
            assert_len = None
    if inf is None:
        why.append('from_point infinity branch not `names = constants`')
    if width is None:
        why.append('from_point value not a sum of `<coord>.to_bytes(w, "big")` over all coordinates')
    if assert_len == 'bad':
        why.append('from_point return not `cls.from_value(value)` / `cls(value)`')

    # to_point
    tp = own_method(cls, 'to_point')
    read = None
    dec_inf = 'bad'
    body = strip_docstring(tp.body) if tp else []
    reads = {}
    i = 0
    while i < len(body) and isinstance(body[i], ast.Assign) and len(body[i].targets) == 1 \
            and isinstance(body[i].targets[0], ast.Name) and body[i].targets[0].id in names:
        c = body[i].value
        ok = False
        if isinstance(c, ast.Call) and u(c.func) == 'int.from_bytes' and len(c.args) == 2 and u(c.args[1]) == "'big'" \
                and not c.keywords and isinstance(c.args[0], ast.Subscript) and u(c.args[0].value) == 'self.value' \
                and isinstance(c.args[0].slice, ast.Slice) and c.args[0].slice.step is None:
            sl = c.args[0].slice
            lo = 0 if sl.lower is None else const_int(sl.lower)
            hi = None if sl.upper is None else const_int(sl.upper)
            if lo is not None and (sl.upper is None or hi is not None):
                reads[body[i].targets[0].id] = (lo, hi)
                ok = True
        if not ok:
            break
        i += 1
    rest = body[i:]
    if sorted(reads) == sorted(names) and len(rest) in (2, 3) and u(rest[-2]).startswith('point=') \
            and u(rest[-2].value) == ctor and u(rest[-1]) in ('returncast(%sUncompressed,point)' % tag, 'returnpoint'):
        read = [reads[n] for n in names]
        if len(rest) == 2:
            dec_inf = None
        else:
            s = rest[0]
            if isinstance(s, ast.If) and not s.orelse and len(s.body) == 1 \
                    and u(s.body[0]) in (f'returncast({tag}Uncompressed,bls12_381.{zero_name})', f'returnbls12_381.{zero_name}'):
                t = s.test
                got = None
                if isinstance(t, ast.Compare) and len(t.ops) == 1 and isinstance(t.ops[0], ast.Eq) \
                        and isinstance(t.left, ast.Tuple) and isinstance(t.comparators[0], ast.Tuple) \
                        and len(t.left.elts) == len(t.comparators[0].elts):
                    tn = [u(e) for e in t.left.elts]
                    tv = [const_int(e) for e in t.comparators[0].elts]
                    if sorted(tn) == sorted(names) and None not in tv:
                        got = [dict(zip(tn, tv))[n] for n in names]
                elif isinstance(t, ast.BoolOp) and isinstance(t.op, ast.And):
                    d = {}
                    for e in t.values:
                        if isinstance(e, ast.Compare) and len(e.ops) == 1 and isinstance(e.ops[0], ast.Eq) \
                                and isinstance(e.left, ast.Name) and const_int(e.comparators[0]) is not None:
                            d[e.left.id] = const_int(e.comparators[0])
                    if sorted(d) == sorted(names) and len(t.values) == len(names):
                        got = [d[n] for n in names]
                if got is not None:
                    dec_inf = got
    if read is None:
        why.append('to_point not `<coord> = int.from_bytes(self.value[a:b], "big")`* ; [if …: return Z]; point = …; return')
    elif dec_inf == 'bad':
        why.append('to_point infinity branch not `if (coords) == (constants): return bls12_381.%s`' % zero_name)
    ok = not why
    status[f'{tag} layout'] = (ok, '; '.join(why) if why else f'width={width} write={write} read={read} inf={inf} decodeInf={dec_inf}')
    if not ok:
        return 'none'

    def opt(v, f=str):
        return 'none' if v is None else f'some ({f(v)})'
    reads_l = lean_list(f'({lo}, {opt(hi)})' for lo, hi in read)
    return ('some { width := %d, write := %s, infCoords := %s, assertLen := %s, read := %s, decodeInf := %s }'
            % (width, lean_list(map(str, write)), lean_list(map(str, inf)), opt(assert_len), reads_l,
               opt(dec_inf, lambda l: lean_list(map(str, l)))))


# ---- instructions -----------------------------------------------------------------------------------

def rows_of(fn):
    """the `mapping={…}` literal of the dispatch_types call"""
    for n in ast.walk(fn):
        if isinstance(n, ast.Call) and u(n.func) == 'dispatch_types':
            for kw in n.keywords:
                if kw.arg == 'mapping' and isinstance(kw.value, ast.Dict):
                    rows = []
                    for k, v in zip(kw.value.keys, kw.value.values):
                        if not (isinstance(k, ast.Tuple) and isinstance(v, ast.Tuple) and len(v.elts) == 1):
                            return None
                        names = [u(e) for e in k.elts] + [u(v.elts[0])]
                        if any(nm not in TY for nm in names):
                            return None
                        rows.append(([TY[nm] for nm in names[:-1]], TY[names[-1]]))
                    if len({tuple(ins) for ins, _ in rows}) != len(rows):
                        return None     # duplicate keys: the dict keeps the last, the mirror looks up the first
                    return rows
    return None


def lean_rows(rows):
    if rows is None:
        return 'none'
    return 'some ' + lean_list('(%s, .%s)' % (lean_list('.' + t for t in ins), out) for ins, out in rows)


def tail_of(fn):
    """statements after the dispatch (and the optional `res_type = cast(…)`), up to `stack.push(res)`"""
    body = strip_docstring(fn.body)
    out = []
    seen_dispatch = False
    for s in body:
        src = u(s)
        if 'dispatch_types(' in src:
            seen_dispatch = True
            continue
        if not seen_dispatch:
            out.append('pre:' + src)
            continue
        if src.startswith('res_type=cast('):
            continue
        if src == 'stack.push(res)':
            break
        out.append(src)
    return out


def instr_facts(tree, status):
    out = {}
    add = find_func(find_class(tree, 'AddInstruction'), 'execute')
    mul = find_func(find_class(tree, 'MulInstruction'), 'execute')
    neg = find_func(find_class(tree, 'NegInstruction'), 'execute')
    intf = find_func(find_class(tree, 'IntInstruction'), 'execute')
    for nm, fn in (('ADD', add), ('MUL', mul), ('NEG', neg)):
        out[nm + '_rows'] = rows_of(fn)
        status[f'{nm} dispatch table'] = (out[nm + '_rows'] is not None, f"{len(out[nm + '_rows'] or [])} rows")

    def binop_tail(fn, op, curve_fn, second):
        t = tail_of(fn)
        want_pre = [s for s in t if s.startswith('pre:')]
        t = [s for s in t if not s.startswith('pre:')]
        ok_pre = len(want_pre) == 1 and want_pre[0].startswith('pre:a,b=cast(') and want_pre[0].endswith(',stack.pop2())')
        want = [f'ifissubclass(res_type,IntType):;res=res_type.from_value(int(a){op}int(b));else:;'
                f'res=res_type.from_point(bls12_381.{curve_fn}(a.to_point(),{second}))']
        return ok_pre and t == want, ' | '.join(want_pre + t)[:300]

    ok, d = binop_tail(add, '+', 'add', 'b.to_point()')
    out['ADD_shape'] = ok
    status['ADD tail shape'] = (ok, d)
    ok, d = binop_tail(mul, '*', 'multiply', 'int(b)')
    out['MUL_shape'] = ok
    status['MUL tail shape'] = (ok, d)

    t = tail_of(neg)
    pre = [s for s in t if s.startswith('pre:')]
    t = [s for s in t if not s.startswith('pre:')]
    ok_pre = len(pre) == 1 and pre[0].startswith('pre:a=cast(') and pre[0].endswith(',stack.pop1())')
    point = 'else:;res=res_type.from_point(bls12_381.neg(a.to_point()))'
    out['NEG_int_branch'] = None
    if ok_pre and t == ['ifissubclass(res_type,IntType):;res=res_type.from_value(-int(a));' + point]:
        out['NEG_int_branch'] = 'resType'
    elif ok_pre and t == ['ifissubclass(res_type,IntType):;res=IntType.from_value(-int(a));' + point]:
        out['NEG_int_branch'] = 'intType'
    status['NEG tail shape'] = (out['NEG_int_branch'] is not None, ' | '.join(pre + t)[:300])

    body = [u(s) for s in strip_docstring(intf.body)]
    want_else = 'a=cast(Union[NatType,BLS12_381_FrType],a);a.assert_type_in(NatType,BLS12_381_FrType);res=IntType.from_value(int(a))'
    ok = len(body) >= 2 and body[0] == 'a=stack.pop1()' and body[1].startswith('ifisinstance(a,BytesType):;') \
        and body[1].endswith('else:;' + want_else)
    out['INT_shape'] = ok
    status['INT (Fr branch) shape'] = (ok, ' | '.join(body[:2])[:300])
    return out


def pairing_facts(tree, status):
    fn = find_func(find_class(tree, 'PairingCheckInstruction'), 'execute')
    body = [u(s) for s in strip_docstring(fn.body)]
    ok = (len(body) >= 5 and body[0] == 'points=cast(ListType,stack.pop1())'
          and body[1].replace(',', '') == 'points.assert_type_equal(ListType.create_type(args=[PairType.create_type(args=[BLS12_381_G1TypeBLS12_381_G2Type])]))'
          and body[2] == 'prod=FQ12.one()'
          and body[3] == 'forpairinpoints:;g1,g2=tuple(iter(pair));prod=prod*bls12_381.pairing(g2.to_point(),g1.to_point())'
          and body[4] in ('res=BoolType.from_value(FQ12.one()==prod)', 'res=BoolType.from_value(prod==FQ12.one())'))
    status['PAIRING_CHECK shape'] = (ok, ' | '.join(body[:5])[:400])
    return ok


def int_subclasses(status):
    """operand classes that derive (transitively) from IntType"""
    parents = {}
    for rel in ('michelson/types/core.py', 'michelson/types/domain.py', 'michelson/types/bls.py'):
        for n in ast.walk(parse(rel)):
            if isinstance(n, ast.ClassDef) and n.name in TY:
                parents[n.name] = [u(b) for b in n.bases]
    res = []
    for name in TY:
        cur, seen = name, 0
        while cur is not None and cur != 'IntType' and seen < 8:
            ps = parents.get(cur, [])
            cur = ps[0] if len(ps) == 1 else None
            seen += 1
        if cur == 'IntType':
            res.append(TY[name])
    ok = sorted(parents) == sorted(TY)
    status['operand class hierarchy'] = (ok, str(parents))
    return res if ok else None


@generator('C21')
def gen_c21(status):
    bls = parse('michelson/types/bls.py')
    fr = fr_facts(bls, status)
    g1 = layout(bls, 'BLS12_381_G1Type', G1_NAMES, G1_ELSE, G1_CTOR, 'Z1', status)
    g2 = layout(bls, 'BLS12_381_G2Type', G2_NAMES, G2_ELSE, G2_CTOR, 'Z2', status)
    ins = instr_facts(parse('michelson/instructions/arithmetic.py'), status)
    pairing_ok = pairing_facts(parse('michelson/instructions/crypto.py'), status)
    int_sub = int_subclasses(status)

    def opt(v, f=str):
        return 'none' if v is None else f'some {f(v)}'

    fr_codec_ok = (fr['maxlen'] is not None and fr['order_in'] == 'little' and fr['order_out'] == 'little'
                   and fr['outlen'] is not None and fr['literal_ok'] and fr['is_int'])
    status['Fr byte order little-endian in and out'] = (fr['order_in'] == 'little' and fr['order_out'] == 'little',
                                                         f"in={fr['order_in']} out={fr['order_out']}")
    lines = [PRELUDE]
    lines.append(f"/-- `BLS12_381_FrType.modulus` -/\ndef frModulus : Option Nat := {opt(fr['modulus'])}")
    lines.append(f"/-- `from_value` is `cls(value % cls.modulus)` -/\ndef frReduces : Option Bool := {opt(fr['reduces'], lambda b: 'true' if b else 'false')}")
    lines.append('/-- little-endian Fr literal codec: (`bytes_to_int` accepts at most this many bytes, `to_bytes(n, \'little\')`) -/\n'
                 f"def frCodec : Option (Nat × Nat) := {opt((fr['maxlen'], fr['outlen']) if fr_codec_ok else None, lambda p: f'({p[0]}, {p[1]})')}")
    lines.append(f'def g1 : Option PointLayout := {g1}')
    lines.append(f'def g2 : Option PointLayout := {g2}')
    lines.append(f"/-- classes for which `issubclass(·, IntType)` holds -/\ndef intSubclasses : Option (List Ty) := {opt(int_sub, lambda l: lean_list('.' + t for t in l))}")
    for nm in ('ADD', 'MUL', 'NEG'):
        lines.append(f"def {nm.lower()}Rows : Option (List (List Ty × Ty)) := {lean_rows(ins[nm + '_rows'])}")
    lines.append('/-- ADD / MUL end in `if issubclass(res_type, IntType): res_type.from_value(int(a) ∘ int(b)) else '
                 'res_type.from_point(bls12_381.add/multiply(a.to_point(), b.to_point() / int(b)))` -/\n'
                 f"def addMulShape : Option Unit := {'some ()' if ins['ADD_shape'] and ins['MUL_shape'] else 'none'}")
    nb = ins['NEG_int_branch']
    lines.append('/-- integer branch of NEG: `some true` = `res_type.from_value(-int(a))`, `some false` = `IntType.from_value(-int(a))` '
                 '(an Fr operand then leaves the field) -/\n'
                 f"def negUsesResType : Option Bool := {opt(None if nb is None else (nb == 'resType'), lambda b: 'true' if b else 'false')}")
    lines.append(f"/-- INT on Fr is `IntType.from_value(int(a))` -/\ndef intShape : Option Unit := {'some ()' if ins['INT_shape'] else 'none'}")
    lines.append('/-- PAIRING_CHECK folds `prod * pairing(g2.to_point(), g1.to_point())` from `FQ12.one()` and compares with `FQ12.one()` -/\n'
                 f"def pairingShape : Option Unit := {'some ()' if pairing_ok else 'none'}")
    return '\n'.join(lines) + '\n'
