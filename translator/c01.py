"""C01 (and C02: same model) — the interpreter mirror `Interp.Impl` against the source it was written from.

Re-reads src/pytezos/michelson/instructions/*.py, michelson/stack.py, michelson/micheline.py, michelson/types/{core,domain,pair}.py
on every run (`ast` only) and emits `Generated/C01.lean` (tables and numbers, imported by the model) and
`Generated/C01Bodies.lean` (the shape digests, imported by Props/C01.lean only):

1. every `dispatch_types(..., mapping={...})` table of the modelled instructions (ADD, SUB, MUL, EDIV, NEG; AND, NOT, the
   table OR / XOR share; the two tables of CONCAT) and the operand classes SIZE / SLICE assert (`assert_type_in` /
   `assert_type_equal`) — `Impl` looks its result classes up in these tables;
2. the numeric guards: `assert int(b) < 257` of `execute_shift`, the `from_value` guards of the integer classes
   (`assert value >= 0`, `value.bit_length() > 63`), `assert count >= 2` of PAIR n / UNPAIR n, the `count - 2` passed to
   `unpairn_comb`, and which index `MichelsonStack.push / pop / peek` use (`items.insert(self.protected, …)`,
   `items.pop(self.protected)`, `items[self.protected]`) — `Impl` computes with these numbers;
3. a *shape digest* per modelled instruction class, helper function and stack / comb method: the normalised text of the
   function (`stdout.append(…)` lines, annotations, `cast`, assert messages, docstrings dropped; the mapping literals and
   the numbers of (1) / (2) replaced by place holders, they are extracted separately) compared with the text the mirror
   was written from (`SHAPES` below).  `bodyRecognised : List (String × Bool)`: an edit of a modelled body flips its entry.

Nothing is guessed: an unrecognised construct gives `none` / `false` and a failed status line (a broken obligation).
"""
import ast
import copy
import os

from harness import common

from translator.extract import find_class, find_func, generator, lean_list, lean_str, parse

I = 'michelson/instructions/'

# Lean instruction form (constructor of `Interp.Instr`) -> (file, class)
FORMS = {
    'seq': ('michelson/micheline.py', 'MichelineSequence'),
    'DROP': (I + 'stack.py', 'DropInstruction'), 'DROPN': (I + 'stack.py', 'DropnInstruction'),
    'DUP': (I + 'stack.py', 'DupInstruction'), 'DUPN': (I + 'stack.py', 'DupnInstruction'),
    'SWAP': (I + 'stack.py', 'SwapInstruction'), 'DIG': (I + 'stack.py', 'DigInstruction'),
    'DUG': (I + 'stack.py', 'DugInstruction'), 'PUSH': (I + 'stack.py', 'PushInstruction'),
    'CAST': (I + 'stack.py', 'CastIntruction'), 'RENAME': (I + 'stack.py', 'RenameInstruction'),
    'DIP': (I + 'control.py', 'DipInstruction'), 'DIPN': (I + 'control.py', 'DipnInstruction'),
    'IF': (I + 'control.py', 'IfInstruction'), 'IF_NONE': (I + 'control.py', 'IfNoneInstruction'),
    'IF_LEFT': (I + 'control.py', 'IfLeftInstruction'), 'IF_CONS': (I + 'control.py', 'IfConsInstruction'),
    'LOOP': (I + 'control.py', 'LoopInstruction'), 'LOOP_LEFT': (I + 'control.py', 'LoopLeftInstruction'),
    'ITER': (I + 'control.py', 'IterInstruction'), 'MAP': (I + 'control.py', 'MapInstruction'),
    'LAMBDA': (I + 'control.py', 'LambdaInstruction'), 'EXEC': (I + 'control.py', 'ExecInstruction'),
    'APPLY': (I + 'control.py', 'ApplyInstruction'), 'FAILWITH': (I + 'control.py', 'FailwithInstruction'),
    'PAIRN': (I + 'adt.py', 'PairnInstruction'), 'UNPAIRN': (I + 'adt.py', 'UnpairnInstruction'),
    'GETN': (I + 'adt.py', 'GetnInstruction'), 'UPDATEN': (I + 'adt.py', 'UpdatenInstruction'),
    'PAIR': (I + 'adt.py', 'PairInstruction'), 'UNPAIR': (I + 'adt.py', 'UnpairInstruction'),
    'CAR': (I + 'adt.py', 'CarInstruction'), 'CDR': (I + 'adt.py', 'CdrInstruction'),
    'LEFT': (I + 'adt.py', 'LeftInstruction'), 'RIGHT': (I + 'adt.py', 'RightInstruction'),
    'SOME': (I + 'struct.py', 'SomeInstruction'), 'NONE': (I + 'struct.py', 'NoneInstruction'),
    'UNIT': (I + 'generic.py', 'UnitInstruction'),
    'NIL': (I + 'struct.py', 'NilInstruction'), 'CONS': (I + 'struct.py', 'ConsInstruction'),
    'SIZE': (I + 'generic.py', 'SizeInstruction'), 'EMPTY_MAP': (I + 'struct.py', 'EmptyMapInstruction'),
    'EMPTY_SET': (I + 'struct.py', 'EmptySetInstruction'), 'MEM': (I + 'struct.py', 'MemInstruction'),
    'GET': (I + 'struct.py', 'GetInstruction'), 'UPDATE': (I + 'struct.py', 'UpdateInstruction'),
    'GET_AND_UPDATE': (I + 'struct.py', 'GetAndUpdateInstruction'),
    'EDIV': (I + 'arithmetic.py', 'EdivInstruction'), 'LSL': (I + 'arithmetic.py', 'LslInstruction'),
    'LSR': (I + 'arithmetic.py', 'LsrInstruction'), 'SUB_MUTEZ': (I + 'arithmetic.py', 'SubMutezInstruction'),
    'ADD': (I + 'arithmetic.py', 'AddInstruction'), 'SUB': (I + 'arithmetic.py', 'SubInstruction'),
    'MUL': (I + 'arithmetic.py', 'MulInstruction'), 'NEG': (I + 'arithmetic.py', 'NegInstruction'),
    'ABS': (I + 'arithmetic.py', 'AbsInstruction'), 'ISNAT': (I + 'arithmetic.py', 'IsNatInstruction'),
    'INT': (I + 'arithmetic.py', 'IntInstruction'),
    'COMPARE': (I + 'compare.py', 'CompareInstruction'), 'EQ': (I + 'compare.py', 'EqInstruction'),
    'NEQ': (I + 'compare.py', 'NeqInstruction'), 'LT': (I + 'compare.py', 'LtInstruction'),
    'GT': (I + 'compare.py', 'GtInstruction'), 'LE': (I + 'compare.py', 'LeInstruction'),
    'GE': (I + 'compare.py', 'GeInstruction'),
    'NOT': (I + 'boolean.py', 'NotInstruction'), 'AND': (I + 'boolean.py', 'AndInstruction'),
    'OR': (I + 'boolean.py', 'OrInstruction'), 'XOR': (I + 'boolean.py', 'XorInstruction'),
    'CONCAT': (I + 'generic.py', 'ConcatInstruction'), 'SLICE': (I + 'generic.py', 'SliceInstruction'),
    'AMOUNT': (I + 'tezos.py', 'AmountInstruction'), 'BALANCE': (I + 'tezos.py', 'BalanceInstruction'),
    'SENDER': (I + 'tezos.py', 'SenderInstruction'), 'SOURCE': (I + 'tezos.py', 'SourceInstruction'),
    'NOW': (I + 'tezos.py', 'NowInstruction'), 'LEVEL': (I + 'tezos.py', 'LevelInstruction'),
    'CHAIN_ID': (I + 'tezos.py', 'ChainIdInstruction'), 'SELF_ADDRESS': (I + 'tezos.py', 'SelfAddressInstruction'),
    'TOTAL_VOTING_POWER': (I + 'tezos.py', 'TotalVotingPowerInstruction'),
    'MIN_BLOCK_TIME': (I + 'tezos.py', 'MinBlockTimeInstruction'),
    'BLAKE2B': (I + 'crypto.py', 'Blake2bInstruction'), 'SHA256': (I + 'crypto.py', 'Sha256Instruction'),
    'SHA512': (I + 'crypto.py', 'Sha512Instruction'), 'KECCAK': (I + 'crypto.py', 'KeccakInstruction'),
    'SHA3': (I + 'crypto.py', 'Sha3Instruction'),
    # extension 2, phase A
    'NEVER': (I + 'generic.py', 'NeverInstruction'), 'NAT': (I + 'arithmetic.py', 'NatInstruction'),
    'BYTES': (I + 'arithmetic.py', 'BytesInstruction'), 'VOTING_POWER': (I + 'tezos.py', 'VotingPowerInstruction'),
    'HASH_KEY': (I + 'crypto.py', 'HashKeyInstruction'),
    # phase C
    'ADDRESS': (I + 'tezos.py', 'AddressInstruction'), 'IMPLICIT_ACCOUNT': (I + 'tezos.py', 'ImplicitAccountInstruction'),
    'CONTRACT': (I + 'tezos.py', 'ContractInstruction'), 'SELF': (I + 'tezos.py', 'SelfInstruction'),
    'TRANSFER_TOKENS': (I + 'tezos.py', 'TransferTokensInstruction'), 'SET_DELEGATE': (I + 'tezos.py', 'SetDelegateInstruction'),
    'EMIT': (I + 'tezos.py', 'EmitInstruction'),
    # phase B (first half)
    'PACK': (I + 'generic.py', 'PackInstruction'),
    # extension 3, phase 1
    'UNPACK': (I + 'generic.py', 'UnpackInstruction'),
    # phase 3
    'CHECK_SIGNATURE': (I + 'crypto.py', 'CheckSignatureInstruction'),
    # phase 2
    'EMPTY_BIG_MAP': (I + 'struct.py', 'EmptyBigMapInstruction'),
}

# module-level helper functions the instruction classes call: digest key -> (file, function)
HELPERS = {
    'execute_cxr': (I + 'adt.py', 'execute_cxr'), 'execute_dip': (I + 'control.py', 'execute_dip'),
    'execute_shift': (I + 'arithmetic.py', 'execute_shift'), 'execute_boolean_add': (I + 'boolean.py', 'execute_boolean_add'),
    'compare': (I + 'compare.py', 'compare'), 'execute_zero_compare': (I + 'compare.py', 'execute_zero_compare'),
    'execute_hash': (I + 'crypto.py', 'execute_hash'), 'dispatch_types': (I + 'base.py', 'dispatch_types'),
    'get_entrypoint_type': (I + 'tezos.py', 'get_entrypoint_type'),
    # extension 3: how `from_micheline_value` takes an expression apart
    'parse_micheline_value': ('michelson/micheline.py', 'parse_micheline_value'),
    'parse_micheline_literal': ('michelson/micheline.py', 'parse_micheline_literal'),
}

# methods: digest key -> (file, class, method)
METHODS = {
    **{f'MichelsonStack.{m}': ('michelson/stack.py', 'MichelsonStack', m)
       for m in ('__init__', 'from_items', 'protect', 'restore', 'push', 'peek', 'pop', 'pop1', 'pop2', 'pop3', '__len__')},
    **{f'PairType.{m}': ('michelson/types/pair.py', 'PairType', m)
       for m in ('init', 'from_comb', 'create_type', 'iter_comb', 'unpairn_comb', 'access_comb', 'update_comb', '__iter__')},
    'IntType.from_value': ('michelson/types/core.py', 'IntType', 'from_value'),
    'NatType.from_value': ('michelson/types/core.py', 'NatType', 'from_value'),
    'MutezType.from_value': ('michelson/types/domain.py', 'MutezType', 'from_value'),
    'TimestampType.from_value': ('michelson/types/domain.py', 'TimestampType', 'from_value'),
    # phase C: how address texts are split and normalised, what an operation records
    'AddressType.from_value': ('michelson/types/domain.py', 'AddressType', 'from_value'),
    'AddressType._split': ('michelson/types/domain.py', 'AddressType', '_split'),
    'ContractType.get_address': ('michelson/types/domain.py', 'ContractType', 'get_address'),
    'ContractType.get_entrypoint': ('michelson/types/domain.py', 'ContractType', 'get_entrypoint'),
    'OperationType.transaction': ('michelson/types/operation.py', 'OperationType', 'transaction'),
    'OperationType.delegation': ('michelson/types/operation.py', 'OperationType', 'delegation'),
    'OperationType.event': ('michelson/types/operation.py', 'OperationType', 'event'),
    # phase B: what PACK calls (forge_micheline itself is property C05's mirror)
    'MichelsonType.pack': ('michelson/types/base.py', 'MichelsonType', 'pack'),
    'PairType.to_micheline_value': ('michelson/types/pair.py', 'PairType', 'to_micheline_value'),
    'MapType.to_micheline_value': ('michelson/types/map.py', 'MapType', 'to_micheline_value'),
    # extension 3, phase 1: what UNPACK calls (`unforge_micheline` itself is property C05's mirror)
    'MichelsonType.unpack': ('michelson/types/base.py', 'MichelsonType', 'unpack'),
    **{f'{c}.from_micheline_value': (f'michelson/types/{f}.py', c, 'from_micheline_value')
       for c, f in (('UnitType', 'core'), ('BoolType', 'core'), ('IntType', 'core'), ('NatType', 'core'), ('StringType', 'core'),
                    ('BytesType', 'core'), ('TimestampType', 'domain'), ('PairType', 'pair'), ('OptionType', 'option'),
                    ('OrType', 'sum'), ('ListType', 'list'), ('SetType', 'set'), ('MapType', 'map'))},
    'MapType.parse_micheline_value': ('michelson/types/map.py', 'MapType', 'parse_micheline_value'),
    'SetType.check_constraints': ('michelson/types/set.py', 'SetType', 'check_constraints'),
    'MapType.check_constraints': ('michelson/types/map.py', 'MapType', 'check_constraints'),
    'StringType.from_value': ('michelson/types/core.py', 'StringType', 'from_value'),
    # phase 2: a big map created in the run (what its lookups do when the context holds nothing for it)
    **{f'BigMapType.{m}': ('michelson/types/big_map.py', 'BigMapType', m) for m in ('empty', '__iter__', 'attach_context', 'get', 'update')},
    'MapType.contains': ('michelson/types/map.py', 'MapType', 'contains'),
    'ExecutionContext.get_tmp_big_map_id': ('context/impl.py', 'ExecutionContext', 'get_tmp_big_map_id'),
    'ExecutionContext.get_big_map_value': ('context/impl.py', 'ExecutionContext', 'get_big_map_value'),
}

TYPE_PRIMS = {  # runtime class -> prim, re-read from the class keyword `prim=` below
    'IntType': 'michelson/types/core.py', 'NatType': 'michelson/types/core.py', 'BytesType': 'michelson/types/core.py',
    'BoolType': 'michelson/types/core.py', 'StringType': 'michelson/types/core.py',
    'TimestampType': 'michelson/types/domain.py', 'MutezType': 'michelson/types/domain.py',
    'ListType': 'michelson/types/list.py', 'SetType': 'michelson/types/set.py', 'MapType': 'michelson/types/map.py',
    'BLS12_381_FrType': 'michelson/types/bls.py', 'BLS12_381_G1Type': 'michelson/types/bls.py',
    'BLS12_381_G2Type': 'michelson/types/bls.py',
}
ALL_PRIMS = ['int', 'nat', 'mutez', 'timestamp', 'bytes', 'bool', 'string', 'list', 'set', 'map',
             'bls12_381_fr', 'bls12_381_g1', 'bls12_381_g2']
CONVERTS = {'bool': 'bool', 'int': 'int', 'str': 'str', 'bytes': 'bytes', 'lambda x: ~int(x)': 'invert', 'lambda x: not bool(x)': 'not'}


# ---- normalisation -----------------------------------------------------------------------------------------------

def _is_stdout(s):
    return (isinstance(s, ast.Expr) and isinstance(s.value, ast.Call) and isinstance(s.value.func, ast.Attribute)
            and isinstance(s.value.func.value, ast.Name) and s.value.func.value.id == 'stdout' and s.value.func.attr == 'append')


class _Norm(ast.NodeTransformer):
    """cast(T, x) -> x ; mapping literal of dispatch_types -> MAPPING ; assert messages, annotations, docstrings and
    `stdout.append(...)` statements dropped (the trace is not mirrored)"""

    def visit_Call(self, node):
        self.generic_visit(node)
        if isinstance(node.func, ast.Name) and node.func.id == 'cast' and len(node.args) == 2:
            return node.args[1]
        if isinstance(node.func, ast.Name) and node.func.id == 'dispatch_types':
            node.keywords = [ast.keyword(arg='mapping', value=ast.Name(id='MAPPING', ctx=ast.Load())) if k.arg == 'mapping' else k
                             for k in node.keywords]
        return node

    def visit_Assert(self, node):
        self.generic_visit(node)
        node.msg = None
        return node

    def visit_AnnAssign(self, node):
        self.generic_visit(node)
        if node.value is None:
            return None
        return ast.Assign(targets=[node.target], value=node.value, lineno=node.lineno)

    def visit_arg(self, node):
        node.annotation = None
        return node

    def _block(self, stmts):
        out = []
        for s in stmts:
            if _is_stdout(s):
                continue
            if isinstance(s, ast.Expr) and isinstance(s.value, ast.Constant) and isinstance(s.value.value, str):
                continue
            r = self.visit(s)
            if r is not None:
                out.append(r)
        return out or [ast.Pass()]

    def visit_FunctionDef(self, node):
        node.returns = None
        node.args = self.visit(node.args)
        node.body = self._block(node.body)
        return node

    def visit_If(self, node):
        node.test = self.visit(node.test)
        node.body = self._block(node.body)
        node.orelse = self._block(node.orelse) if node.orelse else []
        return node

    def visit_For(self, node):
        node.target = self.visit(node.target)
        node.iter = self.visit(node.iter)
        node.body = self._block(node.body)
        node.orelse = self._block(node.orelse) if node.orelse else []
        return node

    def visit_While(self, node):
        node.test = self.visit(node.test)
        node.body = self._block(node.body)
        node.orelse = self._block(node.orelse) if node.orelse else []
        return node

    def visit_Try(self, node):
        node.body = self._block(node.body)
        for h in node.handlers:
            h.body = self._block(h.body)
        node.orelse = self._block(node.orelse) if node.orelse else []
        node.finalbody = self._block(node.finalbody) if node.finalbody else []
        return node


def norm_text(fn):
    fn = _Norm().visit(copy.deepcopy(fn))
    ast.fix_missing_locations(fn)
    return ast.unparse(fn)


# ---- place holders for the extracted numbers (so that changing a bound opens the bound's obligation, not the digest) ----

def _int_const(n):
    return isinstance(n, ast.Constant) and type(n.value) is int


def take_compare(fn, left_text, op, name):
    """the unique `<left_text> <op> N` comparison inside fn: returns N and replaces it by the place holder `name`"""
    hits = [n for n in ast.walk(fn) if isinstance(n, ast.Compare) and len(n.ops) == 1 and isinstance(n.ops[0], op)
            and ast.unparse(n.left) == left_text and _int_const(n.comparators[0])]
    if len(hits) != 1:
        return None
    v = hits[0].comparators[0].value
    hits[0].comparators[0] = ast.Name(id=name, ctx=ast.Load())
    return v


def take_sub(fn, left_text, name):
    """the unique `<left_text> - N` inside fn"""
    hits = [n for n in ast.walk(fn) if isinstance(n, ast.BinOp) and isinstance(n.op, ast.Sub)
            and ast.unparse(n.left) == left_text and _int_const(n.right)]
    if len(hits) != 1:
        return None
    v = hits[0].right.value
    hits[0].right = ast.Name(id=name, ctx=ast.Load())
    return v


def take_index(fn, pattern):
    """`pattern(node)` picks the index expression node of the unique matching construct; `self.protected` -> 'protected',
    the constant 0 -> 'zero', anything else -> unrecognised.  The index is replaced by the place holder INDEX."""
    hits = [n for n in ast.walk(fn) if pattern(n) is not None]
    if len(hits) != 1:
        return None
    holder, field, pos = pattern(hits[0])
    seq = getattr(holder, field)
    node = seq[pos] if isinstance(seq, list) else seq
    text = ast.unparse(node)
    kind = {'self.protected': 'atProtected', '0': 'atZero'}.get(text)
    new = ast.Name(id='INDEX', ctx=ast.Load())
    if isinstance(seq, list):
        seq[pos] = new
    else:
        setattr(holder, field, new)
    return kind


def _items_call(n, meth, nargs):
    if (isinstance(n, ast.Call) and isinstance(n.func, ast.Attribute) and n.func.attr == meth
            and ast.unparse(n.func.value) == 'self.items' and len(n.args) == nargs and not n.keywords):
        return (n, 'args', 0)
    return None


def _items_subscript(n):
    if isinstance(n, ast.Subscript) and ast.unparse(n.value) == 'self.items' and isinstance(n.ctx, ast.Load):
        return (n, 'slice', None)
    return None


# ---- tables ------------------------------------------------------------------------------------------------------

def mappings_of(fn):
    calls = [n for n in ast.walk(fn) if isinstance(n, ast.Call) and isinstance(n.func, ast.Name) and n.func.id == 'dispatch_types']
    out = []
    for c in calls:
        d = next((k.value for k in c.keywords if k.arg == 'mapping'), None)
        out.append((c, d if isinstance(d, ast.Dict) else None))
    return out


def table_rows(d, prims, kind):
    """kind 'types': value is a tuple of classes; 'conv': (class, converter); 'delim': (class, converter, '' / b'')"""
    if d is None:
        return None
    rows = []
    for k, v in zip(d.keys, d.values):
        if not (isinstance(k, ast.Tuple) and isinstance(v, ast.Tuple) and all(isinstance(e, ast.Name) and e.id in prims for e in k.elts)):
            return None
        key = [prims[e.id] for e in k.elts]
        if kind == 'types':
            if not all(isinstance(e, ast.Name) and e.id in prims for e in v.elts):
                return None
            val = [prims[e.id] for e in v.elts]
        else:
            if len(v.elts) != (3 if kind == 'delim' else 2) or not isinstance(v.elts[0], ast.Name) or v.elts[0].id not in prims:
                return None
            conv = CONVERTS.get(ast.unparse(v.elts[1]))
            if conv is None:
                return None
            if kind == 'delim':      # the separator must be the empty value of the converter's class
                sep = v.elts[2]
                if not (isinstance(sep, ast.Constant) and sep.value == {'str': '', 'bytes': b''}.get(conv)):
                    return None
            val = [prims[v.elts[0].id], conv]
        rows.append((key, val))
    if len({tuple(k) for k, _ in rows}) != len(rows):
        return None          # duplicate key in a dict literal (the last wins in Python): not modelled
    return rows


def lp(p):
    return '.' + p


def lean_rows(rows, kind):
    if kind == 'types':
        return lean_list('(' + lean_list(map(lp, k)) + ', ' + lean_list(map(lp, v)) + ')' for k, v in rows)
    return lean_list('(' + lean_list(map(lp, k)) + ', (' + lp(v[0]) + ', .' + v[1] + '))' for k, v in rows)


def asserted_classes(fn, var, prims):
    """classes of the unique `var.assert_type_in(A, B, …)` / `var.assert_type_equal(A)` statement of fn"""
    hits = [n for n in ast.walk(fn) if isinstance(n, ast.Call) and isinstance(n.func, ast.Attribute)
            and n.func.attr in ('assert_type_in', 'assert_type_equal') and ast.unparse(n.func.value) == var]
    if len(hits) != 1 or hits[0].keywords or not all(isinstance(a, ast.Name) and a.id in prims for a in hits[0].args):
        return None
    for a in hits[0].args:
        pass
    out = [prims[a.id] for a in hits[0].args]
    hits[0].args = [ast.Name(id='CLASSES', ctx=ast.Load())]
    return out


def class_prim(cls):
    for k in cls.keywords:
        if k.arg == 'prim' and isinstance(k.value, ast.Constant):
            return k.value.value
    return None


@generator('C01')
def gen_c01(status):
    trees = {}

    def tree(rel):
        if rel not in trees:
            trees[rel] = parse(rel)
        return trees[rel]

    out = []
    # ---- prims of the runtime classes -----------------------------------------------------------------------------
    prims = {}
    for name, rel in TYPE_PRIMS.items():
        cls = find_class(tree(rel), name)
        p = class_prim(cls) if cls is not None else None
        if p is None or p not in ALL_PRIMS:
            status[f'class {name}'] = (False, f'prim={p}')
        else:
            prims[name] = p
    status['runtime classes'] = (len(prims) == len(TYPE_PRIMS), ', '.join(f'{k}={v}' for k, v in sorted(prims.items())))
    out.append('/-- `prim` of the runtime classes that occur in the tables -/')
    out.append('inductive Prim | ' + ' | '.join(ALL_PRIMS) + '\n  deriving DecidableEq, Repr')
    out.append('/-- the converter of a boolean.py / generic.py mapping row: `bool`, `int`, `str`, `bytes`, `lambda x: ~int(x)`, `lambda x: not bool(x)` -/')
    out.append('inductive Conv | bool | int | str | bytes | invert | not\n  deriving DecidableEq, Repr')
    out.append('inductive Guard | assertNonneg | overflowIfBitsGt (n : Nat)\n  deriving DecidableEq, Repr')
    out.append('/-- the index expression of `items.insert(i, …)` / `items.pop(i)` / `items[i]`: `self.protected` or `0` -/')
    out.append('inductive StackIdx | atProtected | atZero\n  deriving DecidableEq, Repr')

    # ---- working copies of every function; the extractors below put place holders into them -----------------------------
    fns = {}      # digest key -> FunctionDef (deep copy) or None

    def load(key, rel, cls_name, fn_name):
        node = tree(rel)
        if cls_name is not None:
            node = find_class(node, cls_name)
        fn = None
        if node is not None:
            for n in (node.body if cls_name is not None else node.body):
                if isinstance(n, ast.FunctionDef) and n.name == fn_name:
                    fn = n
        fns[key] = copy.deepcopy(fn) if fn is not None else None

    for form, (rel, cls) in FORMS.items():
        load(form, rel, cls, 'execute')
    for key, (rel, fn) in HELPERS.items():
        load(key, rel, None, fn)
    for key, (rel, cls, m) in METHODS.items():
        load(key, rel, cls, m)

    # ---- (1) dispatch tables ------------------------------------------------------------------------------------------
    def emit_table(lean_name, fn_key, kind, which=0, count=1):
        fn = fns.get(fn_key)
        rows = None
        if fn is not None:
            ms = mappings_of(fn)
            if len(ms) == count:
                rows = table_rows(ms[which][1], prims, kind)
        status[f'{lean_name} (dispatch_types mapping of {fn_key})'] = (rows is not None, f'{len(rows)} rows' if rows is not None else 'mapping literal not recognised')
        ty = 'List (List Prim × List Prim)' if kind == 'types' else 'List (List Prim × (Prim × Conv))'
        out.append(f'def {lean_name} : Option ({ty}) := ' + ('some ' + lean_rows(rows, kind) if rows is not None else 'none'))

    for form in ('ADD', 'SUB', 'MUL', 'EDIV', 'NEG'):
        emit_table(form.lower() + 'Table', form, 'types')
    emit_table('andTable', 'AND', 'conv')
    emit_table('notTable', 'NOT', 'conv')
    out.append('/-- shared by OR and XOR (`execute_boolean_add`) -/')
    emit_table('boolAddTable', 'execute_boolean_add', 'conv')
    out.append('/-- CONCAT on a list: dispatch on the element class (`a.args[0]`); the separator is the empty string / byte string -/')
    emit_table('concatListTable', 'CONCAT', 'delim', 0, 2)
    out.append('/-- CONCAT on two operands -/')
    emit_table('concatPairTable', 'CONCAT', 'conv', 1, 2)

    def emit_classes(lean_name, fn_key, var, doc):
        fn = fns.get(fn_key)
        cl = asserted_classes(fn, var, prims) if fn is not None else None
        status[f'{lean_name} ({doc})'] = (cl is not None, ', '.join(cl) if cl is not None else 'not recognised')
        out.append(f'/-- {doc} -/')
        out.append(f'def {lean_name} : Option (List Prim) := ' + ('some ' + lean_list(map(lp, cl)) if cl is not None else 'none'))

    emit_classes('sizeClasses', 'SIZE', 'src', '`src.assert_type_in(…)` of SIZE')
    emit_classes('sliceClasses', 'SLICE', 's', '`s.assert_type_in(…)` of SLICE')
    emit_classes('sliceOffsetClass', 'SLICE', 'offset', '`offset.assert_type_equal(…)` of SLICE')
    emit_classes('sliceLengthClass', 'SLICE', 'length', '`length.assert_type_equal(…)` of SLICE')

    # ---- (2) numeric guards -------------------------------------------------------------------------------------------
    def emit_nat(lean_name, value, doc):
        status[f'{lean_name} ({doc})'] = (value is not None, str(value))
        out.append(f'/-- {doc} -/')
        out.append(f'def {lean_name} : Option Nat := ' + (f'some {value}' if value is not None and value >= 0 else 'none'))

    fn = fns.get('execute_shift')
    emit_nat('shiftLimit', take_compare(fn, 'int(b)', ast.Lt, 'SHIFT_LIMIT') if fn else None, '`assert int(b) < N` in execute_shift')
    fn = fns.get('PAIRN')
    emit_nat('pairnMin', take_compare(fn, 'count', ast.GtE, 'MIN_COUNT') if fn else None, '`assert count >= N` in PairnInstruction')
    fn = fns.get('UNPAIRN')
    emit_nat('unpairnMin', take_compare(fn, 'count', ast.GtE, 'MIN_COUNT') if fn else None, '`assert count >= N` in UnpairnInstruction')
    emit_nat('unpairnCombOffset', take_sub(fn, 'count', 'OFFSET') if fn else None, '`pair.unpairn_comb(count - N)` in UnpairnInstruction')

    # from_value guards of the integer classes, in source order
    guard_rows, guards_ok = [], True
    for key, prim in (('IntType.from_value', 'int'), ('NatType.from_value', 'nat'), ('MutezType.from_value', 'mutez'),
                      ('TimestampType.from_value', 'timestamp')):
        fn = fns.get(key)
        gs = None
        if fn is not None and fn.body and ast.unparse(fn.body[-1]) == 'return cls(value)':
            gs = []
            for s in fn.body[:-1]:
                if isinstance(s, ast.Assert) and ast.unparse(s.test) == 'value >= 0':
                    gs.append('.assertNonneg')
                elif (isinstance(s, ast.If) and not s.orelse and len(s.body) == 1 and isinstance(s.body[0], ast.Raise)
                      and ast.unparse(s.body[0].exc).startswith('OverflowError(')):
                    n = take_compare(s, 'value.bit_length()', ast.Gt, 'MAX_BITS')
                    if n is None or n < 0:
                        gs = None
                        break
                    gs.append(f'.overflowIfBitsGt {n}')
                elif isinstance(s, ast.Expr) and isinstance(s.value, ast.Constant):
                    continue
                else:
                    gs = None
                    break
        status[f'{key} guards'] = (gs is not None, ', '.join(gs) if gs else ('no guard' if gs == [] else 'not recognised'))
        if gs is None:
            guards_ok = False
        else:
            guard_rows.append(f'({lp(prim)}, {lean_list(gs)})')
    out.append('/-- `from_value` guards of the integer classes in source order (`assert value >= 0`; `if value.bit_length() > n: raise OverflowError`) -/')
    out.append('def guards : Option (List (Prim × List Guard)) := ' + ('some ' + lean_list(guard_rows) if guards_ok else 'none'))

    # MichelsonStack: which index insert / pop / subscript use
    for lean_name, key, pat, doc in (
            ('pushIndex', 'MichelsonStack.push', lambda n: _items_call(n, 'insert', 2), '`self.items.insert(i, item)` in push'),
            ('popIndex', 'MichelsonStack.pop', lambda n: _items_call(n, 'pop', 1), '`self.items.pop(i)` in pop'),
            ('peekIndex', 'MichelsonStack.peek', _items_subscript, '`self.items[i]` in peek')):
        fn = fns.get(key)
        kind = take_index(fn, pat) if fn is not None else None
        status[f'{lean_name} ({doc})'] = (kind is not None, str(kind))
        out.append(f'/-- {doc} -/')
        out.append(f'def {lean_name} : Option StackIdx := ' + (f'some .{kind}' if kind else 'none'))

    # ---- (3) shape digests --------------------------------------------------------------------------------------------
    rec = []
    for key in list(FORMS) + list(HELPERS) + list(METHODS):
        fn = fns.get(key)
        want = SHAPES.get(key)
        if fn is None:
            ok, detail = False, 'function not found'
        else:
            text = norm_text(fn)
            LAST_TEXTS[key] = text
            ok = want is not None and text == want.strip('\n')
            detail = '' if ok else 'body differs from the transcribed one: ' + text[:500]
        status[f'body {key}'] = (ok, detail)
        rec.append(f'({lean_str(key)}, {"true" if ok else "false"})')
    # the digests go to a module of their own (`Generated/C01Bodies.lean`, imported by Props/C01.lean only): an edit of a
    # body then re-opens `source_bodies_recognised` without rebuilding the model and the proofs that depend on the tables
    bodies = ('/- GENERATED by translator/c01.py from /repo/src — do not edit -/\nnamespace Generated.C01\n'
              '/-- per modelled instruction form / helper / method: the normalised source text equals the text the mirror was written from -/\n'
              'def bodyRecognised : List (String × Bool) := ' + lean_list(rec) + '\n'
              f'def modelledForms : Nat := {len(FORMS)}\n'
              'end Generated.C01\n')
    common.write_if_changed(os.path.join(common.LEAN, 'PytezosModel', 'Generated', 'C01Bodies.lean'), bodies)
    return '\n'.join(out) + '\n'


# ---- the texts the mirror `Interp.Impl` (Michelson/Interp/Impl.lean) was written from: one entry per instruction form,
# helper and method (normalised as described in the module docstring; MAPPING / CLASSES / SHIFT_LIMIT / MIN_COUNT / OFFSET /
# MAX_BITS / INDEX stand for the separately extracted tables and numbers)
SHAPES = {
    'seq': '''
@classmethod
def execute(cls, stack, stdout, context):
    return cls([arg.execute(stack, stdout, context) for arg in cls.args])
''',
    'DROP': '''
@classmethod
def execute(cls, stack, stdout, context):
    dropped = stack.pop1()
    return cls()
''',
    'DROPN': '''
@classmethod
def execute(cls, stack, stdout, context):
    count = cls.args[0].get_int()
    dropped = stack.pop(count=count)
    return cls()
''',
    'DUP': '''
@classmethod
def execute(cls, stack, stdout, context):
    top = stack.peek()
    assert top.is_duplicable()
    res = top.duplicate()
    stack.push(res)
    return cls(stack_items_added=1)
''',
    'DUPN': '''
@classmethod
def execute(cls, stack, stdout, context):
    depth = cls.args[0].get_int() - 1
    stack.protect(count=depth)
    top = stack.peek()
    assert top.is_duplicable()
    res = top.duplicate()
    stack.restore(count=depth)
    stack.push(res)
    return cls(stack_items_added=1)
''',
    'SWAP': '''
@classmethod
def execute(cls, stack, stdout, context):
    a, b = stack.pop2()
    stack.push(a)
    stack.push(b)
    return cls(stack_items_added=2)
''',
    'DIG': '''
@classmethod
def execute(cls, stack, stdout, context):
    depth = cls.args[0].get_int()
    stack.protect(count=depth)
    res = stack.pop1()
    stack.restore(count=depth)
    stack.push(res)
    return cls(stack_items_added=1)
''',
    'DUG': '''
@classmethod
def execute(cls, stack, stdout, context):
    depth = cls.args[0].get_int()
    res = stack.pop1()
    stack.protect(count=depth)
    stack.push(res)
    stack.restore(count=depth)
    return cls(stack_items_added=1)
''',
    'PUSH': '''
@classmethod
def execute(cls, stack, stdout, context):
    res_type, literal = cls.args
    assert res_type.is_pushable()
    res = res_type.from_literal(literal)
    stack.push(res)
    return cls(stack_items_added=1)
''',
    'CAST': '''
@classmethod
def execute(cls, stack, stdout, context):
    res = stack.pop1()
    stack.push(res)
    return cls(stack_items_added=1)
''',
    'RENAME': '''
@classmethod
def execute(cls, stack, stdout, context):
    return cls()
''',
    'DIP': '''
@classmethod
def execute(cls, stack, stdout, context):
    item = execute_dip(cls.prim, stack, stdout, count=1, body=cls.args[0], context=context)
    return cls(item)
''',
    'DIPN': '''
@classmethod
def execute(cls, stack, stdout, context):
    depth = cls.args[0].get_int()
    item = execute_dip(cls.prim, stack, stdout, count=depth, body=cls.args[1], context=context)
    return cls(item)
''',
    'IF': '''
@classmethod
def execute(cls, stack, stdout, context):
    cond = stack.pop1()
    cond.assert_type_equal(BoolType)
    branch = cls.args[0] if bool(cond) else cls.args[1]
    item = branch.execute(stack, stdout, context=context)
    return cls(item)
''',
    'IF_NONE': '''
@classmethod
def execute(cls, stack, stdout, context):
    opt = stack.pop1()
    opt.assert_type_in(OptionType)
    if opt.is_none():
        branch = cls.args[0]
        stack_items_added = 0
    else:
        some = opt.get_some()
        stack.push(some)
        branch = cls.args[1]
        stack_items_added = 1
    item = branch.execute(stack, stdout, context=context)
    return cls(stack_items_added, item)
''',
    'IF_LEFT': '''
@classmethod
def execute(cls, stack, stdout, context):
    or_ = stack.pop1()
    or_.assert_type_in(OrType)
    branch = cls.args[0] if or_.is_left() else cls.args[1]
    res = or_.resolve()
    stack.push(res)
    item = branch.execute(stack, stdout, context=context)
    return cls(item)
''',
    'IF_CONS': '''
@classmethod
def execute(cls, stack, stdout, context):
    lst = stack.pop1()
    lst.assert_type_in(ListType)
    if len(lst) > 0:
        head, tail = lst.split_head()
        stack.push(tail)
        stack.push(head)
        branch = cls.args[0]
        stack_items_added = 2
    else:
        branch = cls.args[1]
        stack_items_added = 0
    item = branch.execute(stack, stdout, context=context)
    return cls(stack_items_added, item)
''',
    'LOOP': '''
@classmethod
def execute(cls, stack, stdout, context):
    items = []
    while True:
        cond = stack.pop1()
        cond.assert_type_equal(BoolType)
        if bool(cond):
            item = cls.args[0].execute(stack, stdout, context=context)
            items.append(item)
        else:
            break
    return cls(items)
''',
    'LOOP_LEFT': '''
@classmethod
def execute(cls, stack, stdout, context):
    stack_items_added = 0
    items = []
    while True:
        or_ = stack.pop1()
        or_.assert_type_in(OrType)
        var = or_.resolve()
        stack.push(var)
        stack_items_added += 1
        if or_.is_left():
            item = cls.args[0].execute(stack, stdout, context=context)
            items.append(item)
        else:
            break
    return cls(stack_items_added, items)
''',
    'ITER': '''
@classmethod
def execute(cls, stack, stdout, context):
    stack_items_added = 0
    src = stack.pop1()
    executions = []
    popped = [src]
    for elt in src:
        if isinstance(src, MapType):
            elt = PairType.from_comb(list(elt))
        stack_items_added += 1
        stack.push(elt)
        execution = cls.args[0].execute(stack, stdout, context=context)
        executions.append(execution)
        popped = []
    return cls(stack_items_added, executions)
''',
    'MAP': '''
@classmethod
def execute(cls, stack, stdout, context):
    stack_items_added = 0
    src = stack.pop1()
    executions = []
    items = []
    popped = [src]
    for elt in src:
        if isinstance(src, MapType):
            elt = PairType.from_comb(list(elt))
        stack.push(elt)
        stack_items_added += 1
        execution = cls.args[0].execute(stack, stdout, context=context)
        executions.append(execution)
        new_elt = stack.pop1()
        if isinstance(src, MapType):
            items.append((elt.items[0], new_elt))
        else:
            items.append(new_elt)
        popped = [new_elt]
    if items:
        res = type(src).from_items(items)
    else:
        res = src
    stack.push(res)
    stack_items_added += 1
    return cls(stack_items_added, executions)
''',
    'LAMBDA': '''
@classmethod
def execute(cls, stack, stdout, context):
    lambda_type = LambdaType.create_type(args=cls.args[:2])
    res = lambda_type(cls.args[2])
    stack.push(res)
    return cls(stack_items_added=1)
''',
    'EXEC': '''
@classmethod
def execute(cls, stack, stdout, context):
    param, lambda_ = stack.pop2()
    assert isinstance(lambda_, LambdaType)
    param.assert_type_equal(lambda_.args[0])
    lambda_stack = MichelsonStack.from_items([param])
    lambda_body = lambda_.value
    item = lambda_body.execute(lambda_stack, stdout, context=context)
    res = lambda_stack.pop1()
    res.assert_type_equal(lambda_.args[1])
    assert len(lambda_stack) == 0
    stack.push(res)
    return cls(item)
''',
    'APPLY': '''
@classmethod
def execute(cls, stack, stdout, context):
    left, lambda_ = stack.pop2()
    lambda_.assert_type_in(LambdaType)
    lambda_.args[0].assert_type_in(PairType)
    left_type, right_type = lambda_.args[0].args
    left.assert_type_equal(left_type)
    new_value = MichelineSequence.create_type(args=[PushInstruction.create_type(args=[left_type, left.to_literal()]), PairInstruction, lambda_.value])
    res = LambdaType.create_type(args=[right_type.get_anon_type(), lambda_.args[1]])(new_value)
    stack.push(res)
    return cls(stack_items_added=1)
''',
    'FAILWITH': '''
@classmethod
def execute(cls, stack, stdout, context):
    a = stack.pop1()
    assert a.is_packable()
    raise MichelsonRuntimeError(repr(a))
''',
    'PAIRN': '''
@classmethod
def execute(cls, stack, stdout, context):
    count = cls.args[0].get_int()
    assert count >= MIN_COUNT
    leaves = stack.pop(count=count)
    res = PairType.from_comb(leaves)
    stack.push(res)
    return cls(stack_items_added=1)
''',
    'UNPAIRN': '''
@classmethod
def execute(cls, stack, stdout, context):
    count = cls.args[0].get_int()
    assert count >= MIN_COUNT
    pair = stack.pop1()
    pair.assert_type_in(PairType)
    leaves = list(pair.unpairn_comb(count - OFFSET))
    for leaf in reversed(leaves):
        stack.push(leaf)
    return cls(stack_items_added=len(leaves))
''',
    'GETN': '''
@classmethod
def execute(cls, stack, stdout, context):
    pair = stack.pop1()
    index = cls.args[0].get_int()
    if index == 0:
        res = pair
    else:
        pair.assert_type_in(PairType)
        res = pair.access_comb(index)
    stack.push(res)
    return cls(stack_items_added=1)
''',
    'UPDATEN': '''
@classmethod
def execute(cls, stack, stdout, context):
    element, pair = stack.pop2()
    index = cls.args[0].get_int()
    if index == 0:
        res = element
    else:
        pair.assert_type_in(PairType)
        res = pair.update_comb(index, element)
    stack.push(res)
    return cls(stack_items_added=1)
''',
    'PAIR': '''
@classmethod
def execute(cls, stack, stdout, context):
    left, right = stack.pop2()
    res = PairType.from_comb([left, right])
    stack.push(res)
    return cls(stack_items_added=1)
''',
    'UNPAIR': '''
@classmethod
def execute(cls, stack, stdout, context):
    pair = stack.pop1()
    pair.assert_type_in(PairType)
    left, right = tuple(iter(pair))
    stack.push(right)
    stack.push(left)
    return cls(stack_items_added=2)
''',
    'CAR': '''
@classmethod
def execute(cls, stack, stdout, context):
    execute_cxr(cls.prim, stack, stdout, 0)
    return cls(stack_items_added=1)
''',
    'CDR': '''
@classmethod
def execute(cls, stack, stdout, context):
    execute_cxr(cls.prim, stack, stdout, 1)
    return cls(stack_items_added=1)
''',
    'LEFT': '''
@classmethod
def execute(cls, stack, stdout, context):
    left = stack.pop1()
    res = OrType.from_left(left, cls.args[0])
    stack.push(res)
    return cls()
''',
    'RIGHT': '''
@classmethod
def execute(cls, stack, stdout, context):
    right = stack.pop1()
    res = OrType.from_right(right, cls.args[0])
    stack.push(res)
    return cls(stack_items_added=1)
''',
    'SOME': '''
@classmethod
def execute(cls, stack, stdout, context):
    some = stack.pop1()
    res = OptionType.from_some(some)
    stack.push(res)
    return cls(stack_items_added=1)
''',
    'NONE': '''
@classmethod
def execute(cls, stack, stdout, context):
    res = OptionType.none(cls.args[0])
    stack.push(res)
    return cls(stack_items_added=1)
''',
    'UNIT': '''
@classmethod
def execute(cls, stack, stdout, context):
    res = UnitType()
    stack.push(res)
    return cls(stack_items_added=1)
''',
    'NIL': '''
@classmethod
def execute(cls, stack, stdout, context):
    res = ListType.empty(cls.args[0])
    stack.push(res)
    return cls(stack_items_added=1)
''',
    'CONS': '''
@classmethod
def execute(cls, stack, stdout, context):
    elt, lst = stack.pop2()
    lst.assert_type_in(ListType)
    res = lst.prepend(elt)
    stack.push(res)
    return cls(stack_items_added=1)
''',
    'SIZE': '''
@classmethod
def execute(cls, stack, stdout, context):
    src = stack.pop1()
    src.assert_type_in(CLASSES)
    res = NatType.from_value(len(src))
    stack.push(res)
    return cls(stack_items_added=1)
''',
    'EMPTY_MAP': '''
@classmethod
def execute(cls, stack, stdout, context):
    res = MapType.empty(key_type=cls.args[0], val_type=cls.args[1])
    stack.push(res)
    return cls(stack_items_added=1)
''',
    'EMPTY_SET': '''
@classmethod
def execute(cls, stack, stdout, context):
    res = SetType.empty(item_type=cls.args[0])
    stack.push(res)
    return cls(stack_items_added=1)
''',
    'MEM': '''
@classmethod
def execute(cls, stack, stdout, context):
    key, src = stack.pop2()
    src.assert_type_in(MapType, BigMapType, SetType)
    res = BoolType.from_value(src.contains(key))
    stack.push(res)
    return cls(stack_items_added=1)
''',
    'GET': '''
@classmethod
def execute(cls, stack, stdout, context):
    key, src = stack.pop2()
    src.assert_type_in(MapType, BigMapType)
    val = src.get(key, dup=True)
    if val is None:
        res = OptionType.none(src.args[1])
    else:
        res = OptionType.from_some(val)
    stack.push(res)
    return cls(stack_items_added=1)
''',
    'UPDATE': '''
@classmethod
def execute(cls, stack, stdout, context):
    key, val, src = stack.pop3()
    val.assert_type_in(OptionType, BoolType)
    if isinstance(val, BoolType):
        src.assert_type_in(SetType)
        dst = src.add(key) if bool(val) else src.remove(key)
    else:
        src.assert_type_in(MapType, BigMapType)
        _, dst = src.update(key, None if val.is_none() else val.get_some())
    stack.push(dst)
    return cls(stack_items_added=1)
''',
    'GET_AND_UPDATE': '''
@classmethod
def execute(cls, stack, stdout, context):
    key, val, src = stack.pop3()
    src.assert_type_in(MapType, BigMapType)
    prev_val, dst = src.update(key, None if val.is_none() else val.get_some())
    res = OptionType.none(src.args[1]) if prev_val is None else OptionType.from_some(prev_val)
    stack.push(dst)
    stack.push(res)
    return cls(stack_items_added=2)
''',
    'EDIV': '''
@classmethod
def execute(cls, stack, stdout, context):
    a, b = stack.pop2()
    q_type, r_type = dispatch_types(type(a), type(b), mapping=MAPPING)
    if int(b) == 0:
        res = OptionType.none(PairType.create_type(args=[q_type, r_type]))
    else:
        q, r = divmod(int(a), int(b))
        if r < 0:
            r += abs(int(b))
            q += 1
        items = [q_type.from_value(q), r_type.from_value(r)]
        res = OptionType.from_some(PairType.from_comb(items))
    stack.push(res)
    return cls(stack_items_added=1)
''',
    'LSL': '''
@classmethod
def execute(cls, stack, stdout, context):
    execute_shift(cls.prim, stack, stdout, lambda x: x[0] << x[1])
    return cls(stack_items_added=1)
''',
    'LSR': '''
@classmethod
def execute(cls, stack, stdout, context):
    execute_shift(cls.prim, stack, stdout, lambda x: x[0] >> x[1])
    return cls(stack_items_added=1)
''',
    'SUB_MUTEZ': '''
@classmethod
def execute(cls, stack, stdout, context):
    a, b = stack.pop2()
    a.assert_type_equal(MutezType)
    b.assert_type_equal(MutezType)
    if int(a) < int(b):
        res = OptionType.none(MutezType)
    else:
        res = OptionType.from_some(MutezType.from_value(int(a) - int(b)))
    stack.push(res)
    return cls(stack_items_added=1)
''',
    'ADD': '''
@classmethod
def execute(cls, stack, stdout, context):
    a, b = stack.pop2()
    res_type, = dispatch_types(type(a), type(b), mapping=MAPPING)
    res_type = res_type
    if issubclass(res_type, IntType):
        res = res_type.from_value(int(a) + int(b))
    else:
        res = res_type.from_point(bls12_381.add(a.to_point(), b.to_point()))
    stack.push(res)
    return cls(stack_items_added=1)
''',
    'SUB': '''
@classmethod
def execute(cls, stack, stdout, context):
    a, b = stack.pop2()
    res_type, = dispatch_types(type(a), type(b), mapping=MAPPING)
    res = res_type.from_value(int(a) - int(b))
    stack.push(res)
    return cls(stack_items_added=1)
''',
    'MUL': '''
@classmethod
def execute(cls, stack, stdout, context):
    a, b = stack.pop2()
    res_type, = dispatch_types(type(a), type(b), mapping=MAPPING)
    res_type = res_type
    if issubclass(res_type, IntType):
        res = res_type.from_value(int(a) * int(b))
    else:
        res = res_type.from_point(bls12_381.multiply(a.to_point(), int(b)))
    stack.push(res)
    return cls(stack_items_added=1)
''',
    'NEG': '''
@classmethod
def execute(cls, stack, stdout, context):
    a = stack.pop1()
    res_type, = dispatch_types(type(a), mapping=MAPPING)
    if issubclass(res_type, IntType):
        res = res_type.from_value(-int(a))
    else:
        res = res_type.from_point(bls12_381.neg(a.to_point()))
    stack.push(res)
    return cls(stack_items_added=1)
''',
    'ABS': '''
@classmethod
def execute(cls, stack, stdout, context):
    a = stack.pop1()
    a.assert_type_equal(IntType)
    res = NatType.from_value(abs(int(a)))
    stack.push(res)
    return cls(stack_items_added=1)
''',
    'ISNAT': '''
@classmethod
def execute(cls, stack, stdout, context):
    a = stack.pop1()
    a.assert_type_equal(IntType)
    if int(a) >= 0:
        res = OptionType.from_some(NatType.from_value(int(a)))
    else:
        res = OptionType.none(NatType)
    stack.push(res)
    return cls(stack_items_added=1)
''',
    'INT': '''
@classmethod
def execute(cls, stack, stdout, context):
    a = stack.pop1()
    if isinstance(a, BytesType):
        res = IntType.from_value(int.from_bytes(bytes(a), 'big', signed=True))
    else:
        a = a
        a.assert_type_in(NatType, BLS12_381_FrType)
        res = IntType.from_value(int(a))
    stack.push(res)
    return cls(stack_items_added=1)
''',
    'COMPARE': '''
@classmethod
def execute(cls, stack, stdout, context):
    a, b = stack.pop2()
    a.assert_type_equal(type(b))
    res = IntType.from_value(compare(a, b))
    stack.push(res)
    return cls(stack_items_added=1)
''',
    'EQ': '''
@classmethod
def execute(cls, stack, stdout, context):
    execute_zero_compare(cls.prim, stack, stdout, lambda x: x == 0)
    return cls(stack_items_added=1)
''',
    'NEQ': '''
@classmethod
def execute(cls, stack, stdout, context):
    execute_zero_compare(cls.prim, stack, stdout, lambda x: x != 0)
    return cls(stack_items_added=1)
''',
    'LT': '''
@classmethod
def execute(cls, stack, stdout, context):
    execute_zero_compare(cls.prim, stack, stdout, lambda x: x < 0)
    return cls(stack_items_added=1)
''',
    'GT': '''
@classmethod
def execute(cls, stack, stdout, context):
    execute_zero_compare(cls.prim, stack, stdout, lambda x: x > 0)
    return cls(stack_items_added=1)
''',
    'LE': '''
@classmethod
def execute(cls, stack, stdout, context):
    execute_zero_compare(cls.prim, stack, stdout, lambda x: x <= 0)
    return cls(stack_items_added=1)
''',
    'GE': '''
@classmethod
def execute(cls, stack, stdout, context):
    execute_zero_compare(cls.prim, stack, stdout, lambda x: x >= 0)
    return cls(stack_items_added=1)
''',
    'NOT': '''
@classmethod
def execute(cls, stack, stdout, context):
    a = stack.pop1()
    res_type, convert = dispatch_types(type(a), mapping=MAPPING)
    res = res_type.from_value(convert(a))
    stack.push(res)
    return cls(stack_items_added=1)
''',
    'AND': '''
@classmethod
def execute(cls, stack, stdout, context):
    a, b = stack.pop2()
    res_type, convert = dispatch_types(type(a), type(b), mapping=MAPPING)
    res = res_type.from_value(convert(a) & convert(b))
    stack.push(res)
    return cls(stack_items_added=1)
''',
    'OR': '''
@classmethod
def execute(cls, stack, stdout, context):
    execute_boolean_add(cls.prim, stack, stdout, lambda x: x[0] | x[1])
    return cls(stack_items_added=1)
''',
    'XOR': '''
@classmethod
def execute(cls, stack, stdout, context):
    execute_boolean_add(cls.prim, stack, stdout, lambda x: x[0] ^ x[1])
    return cls(stack_items_added=1)
''',
    'CONCAT': '''
@classmethod
def execute(cls, stack, stdout, context):
    a = stack.pop1()
    a.assert_type_in(StringType, BytesType, ListType)
    if isinstance(a, ListType):
        a.assert_type_in(ListType)
        res_type, convert, delim = dispatch_types(a.args[0], mapping=MAPPING)
        res = res_type.from_value(delim.join(map(convert, a)))
    else:
        b = stack.pop1()
        res_type, convert = dispatch_types(type(a), type(b), mapping=MAPPING)
        res = res_type.from_value(convert(a) + convert(b))
    stack.push(res)
    return cls(stack_items_added=1)
''',
    'SLICE': '''
@classmethod
def execute(cls, stack, stdout, context):
    offset, length, s = stack.pop3()
    offset.assert_type_equal(CLASSES)
    length.assert_type_equal(CLASSES)
    s.assert_type_in(CLASSES)
    start, stop = (int(offset), int(offset) + int(length))
    if 0 <= start < len(s) and stop <= len(s):
        res = OptionType.from_some(s[start:stop])
    else:
        res = OptionType.none(s.get_anon_type())
    stack.push(res)
    return cls(stack_items_added=1)
''',
    'AMOUNT': '''
@classmethod
def execute(cls, stack, stdout, context):
    amount = context.get_amount()
    res = MutezType.from_value(amount)
    stack.push(res)
    return cls(stack_items_added=1)
''',
    'BALANCE': '''
@classmethod
def execute(cls, stack, stdout, context):
    balance = context.get_balance()
    res = MutezType.from_value(balance)
    stack.push(res)
    return cls(stack_items_added=1)
''',
    'SENDER': '''
@classmethod
def execute(cls, stack, stdout, context):
    sender = context.get_sender()
    res = AddressType.from_value(sender)
    stack.push(res)
    return cls(stack_items_added=1)
''',
    'SOURCE': '''
@classmethod
def execute(cls, stack, stdout, context):
    source = context.get_source()
    res = AddressType.from_value(source)
    stack.push(res)
    return cls(stack_items_added=1)
''',
    'NOW': '''
@classmethod
def execute(cls, stack, stdout, context):
    now = context.get_now()
    res = TimestampType.from_value(now)
    stack.push(res)
    return cls(stack_items_added=1)
''',
    'LEVEL': '''
@classmethod
def execute(cls, stack, stdout, context):
    res = NatType.from_value(context.get_level())
    stack.push(res)
    return cls(stack_items_added=1)
''',
    'CHAIN_ID': '''
@classmethod
def execute(cls, stack, stdout, context):
    chain_id = context.get_chain_id()
    res = ChainIdType.from_value(chain_id)
    stack.push(res)
    return cls(stack_items_added=1)
''',
    'SELF_ADDRESS': '''
@classmethod
def execute(cls, stack, stdout, context):
    res = AddressType.from_value(context.get_self_address())
    stack.push(res)
    return cls(stack_items_added=1)
''',
    'TOTAL_VOTING_POWER': '''
@classmethod
def execute(cls, stack, stdout, context):
    res = NatType.from_value(context.get_total_voting_power())
    stack.push(res)
    return cls(stack_items_added=1)
''',
    'MIN_BLOCK_TIME': '''
@classmethod
def execute(cls, stack, stdout, context):
    res = NatType.from_value(context.get_min_block_time())
    stack.push(res)
    return cls(stack_items_added=1)
''',
    'BLAKE2B': '''
@classmethod
def execute(cls, stack, stdout, context):
    execute_hash(cls.prim, stack, stdout, lambda x: blake2b_32(bytes(x)).digest())
    return cls(stack_items_added=1)
''',
    'SHA256': '''
@classmethod
def execute(cls, stack, stdout, context):
    execute_hash(cls.prim, stack, stdout, lambda x: sha256(bytes(x)).digest())
    return cls(stack_items_added=1)
''',
    'SHA512': '''
@classmethod
def execute(cls, stack, stdout, context):
    execute_hash(cls.prim, stack, stdout, lambda x: sha512(bytes(x)).digest())
    return cls(stack_items_added=1)
''',
    'KECCAK': '''
@classmethod
def execute(cls, stack, stdout, context):
    execute_hash(cls.prim, stack, stdout, lambda x: Keccak256(bytes(x)).digest())
    return cls(stack_items_added=1)
''',
    'SHA3': '''
@classmethod
def execute(cls, stack, stdout, context):
    execute_hash(cls.prim, stack, stdout, lambda x: sha3_256(bytes(x)).digest())
    return cls(stack_items_added=1)
''',
    'execute_cxr': '''
def execute_cxr(prim, stack, stdout, idx):
    pair = stack.pop1()
    pair.assert_type_in(PairType)
    res = pair.items[idx]
    stack.push(res)
''',
    'execute_dip': '''
def execute_dip(prim, stack, stdout, count, body, context):
    stack.protect(count=count)
    item = body.execute(stack, stdout, context=context)
    stack.restore(count=count)
    return item
''',
    'execute_shift': '''
def execute_shift(prim, stack, stdout, shift):
    a, b = stack.pop2()
    a.assert_type_equal(NatType)
    b.assert_type_equal(NatType)
    assert int(b) < SHIFT_LIMIT
    c = shift((int(a), int(b)))
    res = NatType.from_value(c)
    stack.push(res)
''',
    'execute_boolean_add': '''
def execute_boolean_add(prim, stack, stdout, add):
    a, b = stack.pop2()
    res_type, convert = dispatch_types(type(a), type(b), mapping=MAPPING)
    val = add((convert(a), convert(b)))
    res = res_type.from_value(val)
    stack.push(res)
''',
    'compare': '''
def compare(a, b):
    if a == b:
        return 0
    elif a < b:
        return -1
    else:
        return 1
''',
    'execute_zero_compare': '''
def execute_zero_compare(prim, stack, stdout, compare):
    a = stack.pop1()
    a.assert_type_equal(IntType)
    res = BoolType(compare(int(a)))
    stack.push(res)
''',
    'execute_hash': '''
def execute_hash(prim, stack, stdout, hash_digest):
    a = stack.pop1()
    a.assert_type_equal(BytesType)
    res = BytesType.from_value(hash_digest(bytes(a)))
    stack.push(res)
''',
    'dispatch_types': '''
def dispatch_types(*args, mapping):
    key = tuple((arg.prim for arg in args))
    mapping = {tuple((arg.prim for arg in k)): v for k, v in mapping.items()}
    assert key in mapping
    return mapping[key]
''',
    'MichelsonStack.__init__': '''
def __init__(self, items=None):
    self.items = items or []
    self.protected = 0
''',
    'MichelsonStack.from_items': '''
@classmethod
def from_items(cls, items):
    return cls(items)
''',
    'MichelsonStack.protect': '''
def protect(self, count):
    if len(self.items) < count:
        raise Exception(f'got {len(self.items)} items on the stack, want to protect {count}')
    self.protected += count
''',
    'MichelsonStack.restore': '''
def restore(self, count):
    if self.protected < count:
        raise Exception(f'want to restore {count} items, but only {self.protected} are protected')
    self.protected -= count
''',
    'MichelsonStack.push': '''
def push(self, item):
    self.items.insert(INDEX, item)
''',
    'MichelsonStack.peek': '''
def peek(self):
    if not self.items:
        raise Exception('stack is empty')
    return self.items[INDEX]
''',
    'MichelsonStack.pop': '''
def pop(self, count):
    if len(self.items) - self.protected < count:
        raise Exception(f'got {len(self.items) - self.protected} items on the stack, want to pop {count}')
    return [self.items.pop(INDEX) for _ in range(count)]
''',
    'MichelsonStack.pop1': '''
def pop1(self):
    a, = self.pop(count=1)
    return a
''',
    'MichelsonStack.pop2': '''
def pop2(self):
    a, b = self.pop(count=2)
    return (a, b)
''',
    'MichelsonStack.pop3': '''
def pop3(self):
    a, b, c = self.pop(count=3)
    return (a, b, c)
''',
    'MichelsonStack.__len__': '''
def __len__(self):
    return len(self.items)
''',
    'PairType.init': '''
@classmethod
def init(cls, items):
    if len(items) > 2:
        right_cls = cls.args[1]
        items = (items[0], right_cls.init(items[1:]))
    else:
        items = tuple(items)
    return cls(items)
''',
    'PairType.from_comb': '''
@staticmethod
def from_comb(items):
    cls = PairType.create_type(args=[type(item) for item in items])
    return cls.init(items)
''',
    'PairType.create_type': '''
@classmethod
def create_type(cls, args, annots=None, **kwargs):
    if len(args) > 2:
        args = [args[0], PairType.create_type(args=args[1:])]
    else:
        assert len(args) == 2
    type_class = super(PairType, cls).create_type(args=args, annots=annots)
    return type_class
''',
    'PairType.iter_comb': '''
def iter_comb(self, include_nodes=False):
    if include_nodes:
        yield self
    for i, item in enumerate(self):
        if i == 1 and isinstance(item, PairType):
            yield from item.iter_comb(include_nodes=include_nodes)
        else:
            yield item
''',
    'PairType.unpairn_comb': '''
def unpairn_comb(self, count):
    for i, item in enumerate(self):
        if i == 1 and isinstance(item, PairType) and (count > 0):
            yield from item.unpairn_comb(count - 1)
        else:
            yield item
''',
    'PairType.access_comb': '''
def access_comb(self, idx):
    return next((item for i, item in enumerate(self.iter_comb(include_nodes=True)) if i == idx))
''',
    'PairType.update_comb': '''
def update_comb(self, idx, element):
    if idx % 2 == 1:
        leaves = [element if 2 * i + 1 == idx else item for i, item in enumerate(self.iter_comb())]
    else:
        leaves = [item for i, item in enumerate(self.iter_comb()) if 2 * i + 1 < idx]
        if isinstance(element, PairType):
            leaves.extend(element.iter_comb())
        else:
            leaves.append(element)
    return type(self).from_comb(leaves)
''',
    'PairType.__iter__': '''
def __iter__(self):
    yield from iter(self.items)
''',
    'IntType.from_value': '''
@classmethod
def from_value(cls, value):
    return cls(value)
''',
    'NatType.from_value': '''
@classmethod
def from_value(cls, value):
    assert value >= 0
    return cls(value)
''',
    'MutezType.from_value': '''
@classmethod
def from_value(cls, value):
    assert value >= 0
    if value.bit_length() > MAX_BITS:
        raise OverflowError(f'mutez overflow, got {value.bit_length()} bits, should not exceed 63')
    return cls(value)
''',
    'TimestampType.from_value': '''
@classmethod
def from_value(cls, value):
    return cls(value)
''',
    # ---- extension 2, phase A
    'NEVER': '''
@classmethod
def execute(cls, stack, stdout, context):
    never = stack.pop1()
    never.assert_type_equal(NeverType)
    return cls()
''',
    'NAT': '''
@classmethod
def execute(cls, stack, stdout, context):
    a = stack.pop1()
    a.assert_type_in(BytesType)
    res = NatType.from_value(int.from_bytes(bytes(a), 'big'))
    stack.push(res)
    return cls(stack_items_added=1)
''',
    'BYTES': '''
@classmethod
def execute(cls, stack, stdout, context):
    a = stack.pop1()
    a.assert_type_in(NatType, IntType)
    int_val = int(a)
    signed = not isinstance(a, NatType)
    if signed:
        length = (8 + (int_val + (int_val < 0)).bit_length()) // 8 if int_val else 0
    else:
        length = (7 + int_val.bit_length()) // 8
    byte_val = int_val.to_bytes(length, 'big', signed=signed)
    res = BytesType.from_value(byte_val)
    stack.push(res)
    return cls(stack_items_added=1)
''',
    'VOTING_POWER': '''
@classmethod
def execute(cls, stack, stdout, context):
    address = stack.pop1()
    address.assert_type_equal(KeyHashType)
    res = NatType.from_value(context.get_voting_power(str(address)))
    stack.push(res)
    return cls(stack_items_added=1)
''',
    'HASH_KEY': '''
@classmethod
def execute(cls, stack, stdout, context):
    a = stack.pop1()
    a.assert_type_equal(KeyType)
    key = Key.from_encoded_key(str(a))
    res = KeyHashType.from_value(key.public_key_hash())
    stack.push(res)
    return cls(stack_items_added=1)
''',
    # ---- phase C (the repaired bodies: fixes/C01-1 … C01-4)
    'ADDRESS': '''
@classmethod
def execute(cls, stack, stdout, context):
    contract = stack.pop1()
    contract.assert_type_in(ContractType)
    res = AddressType.from_value(str(contract))
    stack.push(res)
    return cls(stack_items_added=1)
''',
    'IMPLICIT_ACCOUNT': '''
@classmethod
def execute(cls, stack, stdout, context):
    key_hash = stack.pop1()
    key_hash.assert_type_equal(KeyHashType)
    res = ContractType.create_type(args=[UnitType]).from_value(str(key_hash))
    stack.push(res)
    return cls(stack_items_added=1)
''',
    'CONTRACT': '''
@classmethod
def execute(cls, stack, stdout, context):
    entrypoint = next(iter(cls.field_names), 'default')
    address = stack.pop1()
    address.assert_type_in(AddressType)
    contract_address, address_entrypoint = address._split()
    contract_type = ContractType.create_type(args=cls.args)
    try:
        assert 'default' in (address_entrypoint, entrypoint)
        if entrypoint == 'default':
            entrypoint = address_entrypoint
        entrypoint_type = get_entrypoint_type(context, entrypoint, address=contract_address)
        if entrypoint_type is None:
            if is_pkh(contract_address):
                assert entrypoint == 'default'
                assert cls.args[0].prim in ('unit', 'ticket')
        else:
            entrypoint_type.assert_type_equal(cls.args[0])
        res = OptionType.from_some(contract_type.from_value(f'{contract_address}%{entrypoint}'))
    except (AssertionError, MichelsonRuntimeError):
        res = OptionType.none(contract_type)
    stack.push(res)
    return cls(stack_items_added=1)
''',
    'SELF': '''
@classmethod
def execute(cls, stack, stdout, context):
    entrypoint = next(iter(cls.field_names), 'default')
    self_type = get_entrypoint_type(context, entrypoint)
    assert self_type
    self_address = context.get_self_address()
    res_type = ContractType.create_type(args=[self_type])
    res = res_type.from_value(f'{self_address}%{entrypoint}')
    stack.push(res)
    return cls(stack_items_added=1)
''',
    'TRANSFER_TOKENS': '''
@classmethod
def execute(cls, stack, stdout, context):
    parameter, amount, destination = stack.pop3()
    amount.assert_type_equal(MutezType)
    assert isinstance(destination, ContractType)
    param_type = destination.args[0]
    parameter.assert_type_equal(param_type)
    ep_type = get_entrypoint_type(context, destination.get_entrypoint(), address=destination.get_address())
    if ep_type:
        parameter.assert_type_equal(ep_type, message='destination contract parameter')
    transaction = OperationType.transaction(source=context.get_self_address(), destination=destination.get_address(), amount=int(amount), entrypoint=destination.get_entrypoint(), value=parameter.to_micheline_value(), param_type=param_type)
    stack.push(transaction)
    return cls(stack_items_added=1)
''',
    'SET_DELEGATE': '''
@classmethod
def execute(cls, stack, stdout, context):
    delegate = stack.pop1()
    delegate.assert_type_equal(OptionType.create_type(args=[KeyHashType]))
    delegation = OperationType.delegation(source=context.get_self_address(), delegate=None if delegate.is_none() else str(delegate.get_some()))
    stack.push(delegation)
    return cls(stack_items_added=1)
''',
    'EMIT': '''
@classmethod
def execute(cls, stack, stdout, context):
    event_type = cls.args[0]
    payload = stack.pop1()
    payload.assert_type_equal(event_type)
    tag = cls.field_names[0] if len(cls.field_names) == 1 else ''
    res = OperationType.event(source=context.get_self_address(), event_type=event_type, payload=payload.to_micheline_value(), tag=tag)
    stack.push(res)
    return cls(stack_items_added=0)
''',
    'get_entrypoint_type': '''
def get_entrypoint_type(context, name, address=None):
    expr = context.get_parameter_expr(address)
    if expr is None:
        return None
    parameter = ParameterSection.match(expr)
    entrypoints = parameter.list_entrypoints()
    assert name in entrypoints
    return entrypoints[name]
''',
    'AddressType.from_value': '''
@classmethod
def from_value(cls, value):
    address, _, entrypoint = value.partition('%')
    if entrypoint == 'default':
        value = address
    assert is_address(value)
    return cls(value)
''',
    'AddressType._split': '''
def _split(self):
    address, _, entrypoint = self.value.partition('%')
    return (address, entrypoint or 'default')
''',
    'ContractType.get_address': '''
def get_address(self):
    return self._split()[0]
''',
    'ContractType.get_entrypoint': '''
def get_entrypoint(self):
    return self._split()[1]
''',
    'OperationType.transaction': '''
@classmethod
def transaction(cls, source, destination, amount, entrypoint, value, param_type):
    content = {'kind': 'transaction', 'source': source, 'destination': destination, 'amount': str(amount), 'parameters': {'entrypoint': entrypoint, 'value': value}}
    return cls(content, ty=param_type)
''',
    'OperationType.delegation': '''
@classmethod
def delegation(cls, source, delegate=None):
    content = {'kind': 'delegation', 'source': source, 'delegate': delegate}
    return cls(content)
''',
    'OperationType.event': '''
@classmethod
def event(cls, source, event_type, payload, tag):
    content = {'kind': 'event', 'source': source, 'event_type': event_type.as_micheline_expr(), 'payload': payload, 'tag': tag}
    return cls(content, ty=event_type)
''',
    # ---- phase B (first half)
    'PACK': '''
@classmethod
def execute(cls, stack, stdout, context):
    a = stack.pop1()
    res = BytesType.from_value(a.pack())
    stack.push(res)
    return cls(stack_items_added=1)
''',
    'MichelsonType.pack': '''
def pack(self, legacy=False):
    assert self.is_packable()
    data = self.forge(mode='legacy_optimized' if legacy else 'optimized')
    return b'\\x05' + data
''',
    'PairType.to_micheline_value': '''
def to_micheline_value(self, mode='readable', lazy_diff=False):
    if mode == 'legacy_optimized':
        items = self.items
    else:
        items = list(self.iter_comb())
    args = [arg.to_micheline_value(mode=mode, lazy_diff=lazy_diff) for arg in items]
    if mode in ['readable', 'legacy_optimized']:
        return {'prim': 'Pair', 'args': args}
    elif mode == 'optimized':
        if len(args) == 2:
            return {'prim': 'Pair', 'args': args}
        elif len(args) == 3:
            return {'prim': 'Pair', 'args': [args[0], {'prim': 'Pair', 'args': args[1:]}]}
        elif len(args) >= 4:
            return args
        else:
            raise AssertionError(f'unexpected number of args {len(args)}')
    else:
        raise AssertionError(f'unsupported mode {mode}')
''',
    'MapType.to_micheline_value': '''
def to_micheline_value(self, mode='readable', lazy_diff=False):
    return [{'prim': 'Elt', 'args': [x.to_micheline_value(mode=mode, lazy_diff=lazy_diff) for x in elt]} for elt in self]
''',
    # extension 3, phase 1: UNPACK (the repaired bodies: C01-5 annotations, C01-6 n-ary Pair, C01-7 printable strings)
    'UNPACK': '''
@classmethod
def execute(cls, stack, stdout, context):
    a = stack.pop1()
    a.assert_type_equal(BytesType)
    try:
        some = cls.args[0].unpack(bytes(a))
        res = OptionType.from_some(some)
    except Exception as e:
        res = OptionType.none(cls.args[0])
    stack.push(res)
    return cls(stack_items_added=1)
''',
    'parse_micheline_value': '''
def parse_micheline_value(val_expr, handlers):
    assert isinstance(val_expr, dict)
    prim, args = (val_expr.get('prim'), val_expr.get('args', []))
    assert not val_expr.get('annots')
    expected = ' or '.join(map(lambda x: f'{x[0]} ({x[1]} args)', handlers))
    assert (prim, len(args)) in handlers
    handler = handlers[prim, len(args)]
    return handler(args)
''',
    'parse_micheline_literal': '''
def parse_micheline_literal(val_expr, handlers):
    assert isinstance(val_expr, dict)
    try:
        core_type, value = next(((k, v) for k, v in val_expr.items() if k[0] != '_' and k != 'annots'))
    except StopIteration as e:
        raise Exception(f"Can't parse literal `{val_expr}`") from e
    expected = ' or '.join(map(lambda x: f'`{x}`', handlers))
    if core_type not in handlers:
        raise Exception(f'Expected one of {expected}, got {core_type}')
    handler = handlers[core_type]
    return handler(value)
''',
    'MichelsonType.unpack': '''
@classmethod
def unpack(cls, data):
    assert cls.is_packable()
    assert data.startswith(b'\\x05')
    val_expr = unforge_micheline(data[1:])
    return cls.from_micheline_value(val_expr)
''',
    'UnitType.from_micheline_value': '''
@classmethod
def from_micheline_value(cls, val_expr):
    parse_micheline_value(val_expr, {('Unit', 0): lambda x: x})
    return cls()
''',
    'BoolType.from_micheline_value': '''
@classmethod
def from_micheline_value(cls, val_expr):
    value = parse_micheline_value(val_expr, {('False', 0): lambda x: False, ('True', 0): lambda x: True})
    return cls(value)
''',
    'IntType.from_micheline_value': '''
@classmethod
def from_micheline_value(cls, val_expr):
    value = parse_micheline_literal(val_expr, {'int': int})
    return cls(value)
''',
    'NatType.from_micheline_value': '''
@classmethod
def from_micheline_value(cls, val_expr):
    value = parse_micheline_literal(val_expr, {'int': int})
    return cls.from_value(value)
''',
    'StringType.from_micheline_value': '''
@classmethod
def from_micheline_value(cls, val_expr):
    value = parse_micheline_literal(val_expr, {'string': str})
    return cls.from_value(value)
''',
    'BytesType.from_micheline_value': '''
@classmethod
def from_micheline_value(cls, val_expr):
    value = parse_micheline_literal(val_expr, {'bytes': bytes.fromhex})
    return cls(value)
''',
    'TimestampType.from_micheline_value': '''
@classmethod
def from_micheline_value(cls, val_expr):
    value = parse_micheline_literal(val_expr, {'int': int, 'string': optimize_timestamp})
    return cls.from_value(value)
''',
    'PairType.from_micheline_value': '''
@classmethod
def from_micheline_value(cls, val_expr):
    if isinstance(val_expr, dict):
        prim, args = (val_expr.get('prim'), val_expr.get('args', []))
        assert prim == 'Pair'
        assert not val_expr.get('annots')
    elif isinstance(val_expr, list):
        args = val_expr
    else:
        raise AssertionError(f'either dict(prim) or list expected, got {type(val_expr).__name__}')
    if len(args) == 2:
        value = tuple((cls.args[i].from_micheline_value(arg) for i, arg in enumerate(args)))
    elif len(args) > 2:
        assert issubclass(cls.args[1], PairType)
        value = (cls.args[0].from_micheline_value(args[0]), cls.args[1].from_micheline_value(args[1:]))
    else:
        raise AssertionError(f'at least two args expected, got {len(args)}')
    return cls(value)
''',
    'OptionType.from_micheline_value': '''
@classmethod
def from_micheline_value(cls, val_expr):
    item = parse_micheline_value(val_expr, {('Some', 1): lambda x: cls.args[0].from_micheline_value(x[0]), ('None', 0): lambda x: None})
    return cls(item)
''',
    'OrType.from_micheline_value': '''
@classmethod
def from_micheline_value(cls, val_expr):
    value = parse_micheline_value(val_expr, {('Left', 1): lambda x: (cls.args[0].from_micheline_value(x[0]), Undefined), ('Right', 1): lambda x: (Undefined, cls.args[1].from_micheline_value(x[0]))})
    return cls(value)
''',
    'ListType.from_micheline_value': '''
@classmethod
def from_micheline_value(cls, val_expr):
    assert isinstance(val_expr, list)
    items = list(map(cls.args[0].from_micheline_value, val_expr))
    return cls(items)
''',
    'SetType.from_micheline_value': '''
@classmethod
def from_micheline_value(cls, val_expr):
    assert isinstance(val_expr, list)
    items = list(map(cls.args[0].from_micheline_value, val_expr))
    cls.check_constraints(items)
    return cls(items)
''',
    'MapType.from_micheline_value': '''
@classmethod
def from_micheline_value(cls, val_expr):
    return cls(cls.parse_micheline_value(val_expr))
''',
    'MapType.parse_micheline_value': '''
@classmethod
def parse_micheline_value(cls, val_expr):
    assert isinstance(val_expr, list)

    def parse_elt(elt_expr):
        return parse_micheline_value(elt_expr, {('Elt', 2): lambda x: tuple((cls.args[i].from_micheline_value(arg) for i, arg in enumerate(x)))})
    items = list(map(parse_elt, val_expr))
    cls.check_constraints(items)
    return items
''',
    'SetType.check_constraints': '''
@classmethod
def check_constraints(cls, items):
    assert len(set(items)) == len(items)
    assert items == sorted(items)
''',
    'MapType.check_constraints': '''
@classmethod
def check_constraints(cls, items):
    keys = list(map(lambda x: x[0], items))
    assert len(set(keys)) == len(keys)
    assert keys == sorted(keys)
''',
    'StringType.from_value': '''
@classmethod
def from_value(cls, value):
    assert isinstance(value, str)
    assert len(value) == len(value.encode())
    assert all((c == '\\n' or ' ' <= c <= '~' for c in value))
    return cls(value)
''',
    # phase 3
    'CHECK_SIGNATURE': '''
@classmethod
def execute(cls, stack, stdout, context):
    pk, sig, msg = stack.pop3()
    pk.assert_type_equal(KeyType)
    sig.assert_type_equal(SignatureType)
    msg.assert_type_equal(BytesType)
    key = Key.from_encoded_key(str(pk))
    try:
        key.verify(signature=str(sig), message=bytes(msg))
    except ValueError:
        res = BoolType(False)
    else:
        res = BoolType(True)
    stack.push(res)
    return cls(stack_items_added=1)
''',
    # phase 2
    'EMPTY_BIG_MAP': '''
@classmethod
def execute(cls, stack, stdout, context):
    res = BigMapType.empty(key_type=cls.args[0], val_type=cls.args[1])
    res.attach_context(context)
    stack.push(res)
    return cls(stack_items_added=1)
''',
    'BigMapType.empty': '''
@staticmethod
def empty(key_type, val_type):
    cls = BigMapType.create_type(args=[key_type, val_type])
    return cls(items=[])
''',
    'BigMapType.__iter__': '''
def __iter__(self):
    yield from iter(self.items)
    for key in self.removed_keys:
        yield (key, None)
''',
    'BigMapType.attach_context': '''
def attach_context(self, context, big_map_copy=False):
    assert self.context is None
    self.context = context
    if self.ptr is None:
        self.ptr = context.get_tmp_big_map_id()
    else:
        self.ptr = context.register_big_map(self.ptr, copy=big_map_copy)
    if context.tzt:
        context.tzt_big_maps[self.ptr] = self
''',
    'BigMapType.get': '''
def get(self, key, dup=True):
    self.args[0].assert_type_equal(type(key))
    if dup:
        assert self.args[1].is_duplicable()
    val = next((v for k, v in self if k == key), Undefined)
    if val is Undefined:
        assert self.context
        key_hash = forge_script_expr(key.pack(legacy=True))
        val_expr = self.context.get_big_map_value(self.ptr, key_hash)
        if val_expr is None:
            return None
        else:
            return self.args[1].from_micheline_value(val_expr)
    else:
        return val
''',
    'BigMapType.update': '''
def update(self, key, val):
    removed_keys = set(self.removed_keys)
    prev_val = self.get(key, dup=False)
    if prev_val is not None:
        if val is not None:
            if any((k == key for k, _ in self.items)):
                items = [(k, v if k != key else val) for k, v in self.items]
            else:
                items = sorted(self.items + [(key, val)], key=lambda x: x[0])
        else:
            items = [(k, v) for k, v in self.items if k != key]
            removed_keys.add(key)
    elif val is not None:
        items = sorted(self.items + [(key, val)], key=lambda x: x[0])
        if key in removed_keys:
            removed_keys.remove(key)
    else:
        items = self.items
    res = type(self)(items=items, ptr=self.ptr, removed_keys=list(removed_keys))
    res.context = self.context
    return (prev_val, res)
''',
    'MapType.contains': '''
def contains(self, key):
    return self.get(key, dup=False) is not None
''',
    'ExecutionContext.get_tmp_big_map_id': '''
def get_tmp_big_map_id(self):
    self.tmp_big_map_index += 1
    return -self.tmp_big_map_index
''',
    'ExecutionContext.get_big_map_value': '''
def get_big_map_value(self, ptr, key_hash):
    if self.tzt or ptr not in self.big_maps:
        return None
    ptr, _ = self.big_maps[ptr]
    if ptr < 0:
        return None
    if self.shell is None:
        raise ValueError(f'Shell is undefined, cannot connect to network')
    try:
        return self.shell.blocks[self.block_id].context.big_maps[ptr][key_hash]()
    except RpcError:
        return None
''',
}

LAST_TEXTS = {}      # digest key -> normalised text of the last run (used to transcribe SHAPES: tools-free `python -m translator.c01`)


if __name__ == '__main__':
    gen_c01({})
    for k, v in LAST_TEXTS.items():
        print(f"    {k!r}: '''\n{v}\n''',")

